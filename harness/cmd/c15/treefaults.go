package main

// Part 2d: a FileReader that met a transient fetch failure.
//
// The counterpart of dirfaults.go for file/bytes trees: one seeded fetch (the k-th fetch
// a whole-file read makes: the root, a nested bytes schema blob or a data blob) fails
// once; the same FileReader is then read again, then a fresh one.  The property binds
// every read that does not fail: a nil error (or io.EOF exactly at the end of the file)
// comes with exactly the bytes the schema denotes.  Whether the same reader recovers is
// recorded, not judged.

import (
	"bytes"
	"context"
	"errors"
	"fmt"
	"io"
	"math/rand"

	"perkeep.org/pkg/blobserver/memory"
	"perkeep.org/pkg/schema"

	"verif.local/harness/ev"
)

func checkTreeAfterFault(r *ev.Run, rng *rand.Rand, st *memory.Storage, root *tnode, schemaBlobs map[string]*tnode, viol func(sig, op, format string, a ...any)) {
	ctx := context.Background()
	want := root.den
	size := len(want)
	if size == 0 {
		return
	}
	// the fetches of NewFileReader + one whole-file ReadAt, in order
	probe := &flakyFetcher{inner: st, record: true}
	fr0, err := schema.NewFileReader(ctx, probe, root.ref)
	if err != nil {
		return // reported by the fault-free pass
	}
	if n, _ := fr0.ReadAt(make([]byte, size), 0); n != size {
		return
	}
	fr0.Close()
	seq := probe.seq
	nfetch := len(seq)
	k := 1 + rng.Intn(nfetch)
	if nfetch > 1 && rng.Intn(4) > 0 {
		k = 2 + rng.Intn(nfetch-1) // mostly after something was read
	}
	kind := ffKinds[rng.Intn(len(ffKinds))]
	what := "data-blob"
	if k == 1 {
		what = "root-schema"
	} else if _, ok := schemaBlobs[seq[k-1].String()]; ok {
		what = "bytes-schema"
	}
	where := fmt.Sprintf("fetch %d of %d of a whole-file read (%s %s) fails once (%s)", k, nfetch, what, seq[k-1], kind)

	ff := &flakyFetcher{inner: st}
	ff.arm(k, seq[0], kind)
	fr, err := schema.NewFileReader(ctx, ff, root.ref)
	r.Eval(1)
	r.Count("tree_fault_sequences", 1)
	if err != nil {
		if ff.firedCount() == 0 {
			viol("open-error/tree-"+root.typ, "NewFileReader", "%s: failed though no fetch had failed: %v", where, err)
			return
		}
		r.Note("tree_fault", "open-failed")
	} else {
		defer fr.Close()
		// judge one read: nil error / EOF at the end => exact bytes
		read := func(off, n int, sig, op string) (failed bool, ok bool) {
			salt := rng.Intn(255)
			buf := dirtyBuf(n, salt)
			got, err := fr.ReadAt(buf, int64(off))
			r.Eval(1)
			exp := want[off:min(off+n, size)]
			clean := err == nil || (errors.Is(err, io.EOF) && off+got == size && got == len(exp))
			if !clean && errors.Is(err, io.EOF) && off+got < size {
				// io.ReaderAt: io.EOF = the input ends here; never before the true size
				viol("readat-eof-before-end/tree", op, "%s: returned (%d, io.EOF): end of file reported at offset %d, the schema denotes %d bytes", where, got, off+got, size)
				return false, false
			}
			if !clean {
				return true, true
			}
			if got != len(exp) || !bytes.Equal(buf[:max(got, 0)], exp) {
				g := buf[:min(max(got, 0), len(buf))]
				d := firstDiff(g, exp)
				viol(sig, op, "%s: returned %d bytes with error %v, the schema denotes %d bytes there; first difference at index %d: got %s, want %s%s", where, got, err, len(exp), d, around(g, d), around(exp, d), unwritten(g, exp, salt))
				return false, false
			}
			return false, true
		}
		failed, ok := read(0, size, "readat-with-fault/tree", fmt.Sprintf("ReadAt(off=0, len=%d)", size))
		if !ok {
			return
		}
		if failed && ff.firedCount() == 0 {
			viol("readat-error/tree-no-fault", "ReadAt", "%s: the whole-file read failed though no fetch had failed", where)
			return
		}
		if ff.firedCount() == 0 {
			r.Note("tree_fault", "fault-not-reached")
			return
		}
		if failed {
			r.Note("tree_fault_first_read", "error")
		} else {
			r.Note("tree_fault_first_read", "complete")
		}
		r.Note("tree_fault", what)
		r.Note("tree_fault_kind", kind)
		// the same reader again: whole file, then a seeded range
		for c := 2; c <= 3; c++ {
			off, n := 0, size
			if c == 3 {
				off = rng.Intn(size)
				n = 1 + rng.Intn(size-off)
			}
			failed, ok := read(off, n, "readat-after-fault/tree", fmt.Sprintf("read %d on the SAME FileReader, ReadAt(off=%d, len=%d)", c, off, n))
			if !ok {
				return
			}
			if failed {
				r.Note("tree_fault_same_reader_again(error not judged)", "error")
			} else {
				r.Note("tree_fault_same_reader_again", "exact-bytes")
			}
		}
	}
	// a fresh reader over the same fetcher: the failure is spent
	fresh, err := schema.NewFileReader(ctx, ff, root.ref)
	r.Eval(1)
	if err != nil {
		viol("fresh-reader-after-fault-error/tree", "NewFileReader", "%s: a fresh reader afterwards: %v", where, err)
		return
	}
	defer fresh.Close()
	buf := dirtyBuf(size, 3)
	n, err := fresh.ReadAt(buf, 0)
	r.Eval(1)
	if n != size || (err != nil && !errors.Is(err, io.EOF)) || !bytes.Equal(buf[:max(n, 0)], want[:min(max(n, 0), size)]) {
		viol("fresh-reader-after-fault/tree", fmt.Sprintf("ReadAt(off=0, len=%d) on a fresh reader", size), "%s: returned %d bytes (err=%v), the schema denotes %d bytes; first difference at %d", where, n, err, size, firstDiff(buf[:max(n, 0)], want))
		return
	}
	r.Note("tree_fault", "fresh-reader-afterwards")
}
