package main

import (
	"bytes"
	"context"
	"errors"
	"fmt"
	"io"
	"math/rand"
	"sort"
	"sync/atomic"
	"time"

	"go4.org/rollsum"

	"perkeep.org/pkg/blob"
	"perkeep.org/pkg/blobserver/memory"
	"perkeep.org/pkg/schema"

	"verif.local/harness/ev"
)

// ---------------------------------------------------------------- lengths

type lenClass struct {
	name string
	n    int // -1: drawn per case from 2..5 MiB
}

var lenClasses = []lenClass{
	{"0", 0}, {"1", 1},
	{"64Ki-1", 64*kib - 1}, {"64Ki", 64 * kib}, {"64Ki+1", 64*kib + 1},
	{"256Ki-1", 256*kib - 1}, {"256Ki", 256 * kib}, {"256Ki+1", 256*kib + 1},
	{"288Ki-1", 288*kib - 1}, {"288Ki", 288 * kib}, {"288Ki+1", 288*kib + 1},
	{"320Ki-1", 320*kib - 1}, {"320Ki", 320 * kib}, {"320Ki+1", 320*kib + 1},
	{"1Mi-1", mib - 1}, {"1Mi", mib}, {"1Mi+1", mib + 1},
	{"1.25Mi-1", mib + 256*kib - 1}, {"1.25Mi", mib + 256*kib}, {"1.25Mi+1", mib + 256*kib + 1},
	{"2-5Mi", -1},
}

func lengthClassNames() []string {
	var out []string
	for _, c := range lenClasses {
		out = append(out, c.name)
	}
	return out
}

var contents = []string{"zeros", "random", "engineered"}
var readerShapes = []string{"whole", "onebyte", "half", "short", "dataeof", "zeroreads"}

// ---------------------------------------------------------------- source readers

// srcReader delivers data in the given shape.  Every shape is a legal io.Reader.
type srcReader struct {
	data    []byte
	pos     int
	shape   string
	rng     *rand.Rand
	lastNil bool
	calls   int
	dataEOF int // reads that returned n>0 together with io.EOF
	zero    int // reads that returned (0, nil)
}

func (s *srcReader) Read(p []byte) (int, error) {
	s.calls++
	if len(p) == 0 {
		return 0, nil
	}
	rem := len(s.data) - s.pos
	if rem == 0 {
		return 0, io.EOF
	}
	n := len(p)
	switch s.shape {
	case "whole":
	case "onebyte":
		n = 1
	case "half":
		n = len(p) / 2
		if n == 0 {
			n = 1
		}
	case "short", "dataeof", "zeroreads":
		if s.shape == "zeroreads" && !s.lastNil && s.rng.Intn(3) == 0 {
			s.lastNil = true
			s.zero++
			return 0, nil
		}
		s.lastNil = false
		lim := []int{3, 100, 5000, len(p), len(p)}[s.rng.Intn(5)]
		if lim > len(p) {
			lim = len(p)
		}
		n = 1 + s.rng.Intn(lim)
	}
	if n > rem {
		n = rem
	}
	copy(p, s.data[s.pos:s.pos+n])
	s.pos += n
	if s.shape == "dataeof" && s.pos == len(s.data) {
		s.dataEOF++
		return n, io.EOF
	}
	return n, nil
}

// ---------------------------------------------------------------- engineered content

// windows maps a rollsum "bits" score to a 64-byte window after which the rolling
// checksum reports a split of that strength, whatever preceded the window.
var windows = map[int][]byte{}
var windowBits []int

func initWindows() error {
	rng := rand.New(rand.NewSource(0xC15))
	rs := rollsum.New()
	var last [64]byte
	want := 5 // bits 13..17
	for i := 0; i < 256<<20 && len(windows) < want; i++ {
		c := byte(rng.Intn(256))
		rs.Roll(c)
		copy(last[:], last[1:])
		last[63] = c
		if i >= 64 && rs.OnSplit() {
			b := rs.Bits()
			if b >= 13 && b <= 17 && windows[b] == nil {
				windows[b] = append([]byte(nil), last[:]...)
			}
		}
	}
	if len(windows) < want {
		return fmt.Errorf("found only %d windows", len(windows))
	}
	for b, w := range windows {
		for _, fill := range []byte{0, 0xff, 'a'} {
			rs := rollsum.New()
			for i := 0; i < 200; i++ {
				rs.Roll(fill)
			}
			for _, c := range w {
				rs.Roll(c)
			}
			if !rs.OnSplit() || rs.Bits() != b {
				return fmt.Errorf("window for bits %d does not split after filler %#x", b, fill)
			}
		}
		windowBits = append(windowBits, b)
	}
	sort.Ints(windowBits)
	return nil
}

func pickWindow(rng *rand.Rand) []byte {
	// skewed to low bits (as in real data) but with frequent strong splits so that nesting occurs
	k := rng.Intn(10)
	switch {
	case k < 4:
		return windows[13]
	case k < 6:
		return windows[14]
	case k < 8:
		return windows[15]
	case k < 9:
		return windows[16]
	}
	return windows[17]
}

func fillerBytes(n int, kind int) []byte {
	data := make([]byte, n)
	switch kind {
	case 1:
		for i := range data {
			data[i] = 0xff
		}
	case 2:
		for i := range data {
			data[i] = 'a'
		}
	}
	return data
}

// engineered returns content whose rollsum split candidates sit at chosen distances
// from the chunker's thresholds, plus the planted candidate positions (number of bytes
// consumed when the candidate is seen).
func engineered(n int, rng *rand.Rand) (data []byte, planted []int, sub string) {
	if rng.Intn(3) == 0 {
		return periodic(n, rng)
	}
	data = fillerBytes(n, rng.Intn(3))
	lastEnd := 0
	place := func(end int) bool {
		if end-64 < lastEnd || end > n {
			return false
		}
		copy(data[end-64:end], pickWindow(rng))
		lastEnd = end
		planted = append(planted, end)
		return true
	}
	// candidates before the first-chunk rule
	place(64 + rng.Intn(1000))
	place(minChunk + 1 + rng.Intn(3))
	switch rng.Intn(4) {
	case 0:
		place(firstChunk - 1)
	case 1:
		place(firstChunk)
	case 2:
		place(firstChunk - 64 - rng.Intn(4000))
	case 3:
		// candidate right after the first-chunk cut: too small a chunk
		place(firstChunk - 100)
	}
	cur := firstChunk
	if lastEnd > cur {
		cur = lastEnd
	}
	for cur < n {
		next := 0
		switch rng.Intn(9) {
		case 0:
			place(cur + minChunk)
			next = cur + minChunk + 65 + rng.Intn(200)
			place(next)
		case 1:
			place(cur + minChunk - 1)
			next = cur + minChunk + 63 + rng.Intn(3)
			place(next)
		case 2, 3:
			next = cur + minChunk + 1
			place(next)
		case 4:
			next = cur + minChunk + 2 + rng.Intn(1000)
			place(next)
		case 5:
			next = cur + minChunk + 1 + rng.Intn(300*kib)
			place(next)
		case 6:
			switch rng.Intn(3) {
			case 0:
				next = cur + chunkLimit - 1
				place(next)
			case 1:
				next = cur + chunkLimit
				place(next)
			case 2:
				next = cur + chunkLimit
				place(next + 1)
			}
		case 7:
			place(cur + 64 + rng.Intn(minChunk-128))
			next = cur + minChunk + 1
			place(next)
		case 8:
			// candidate just inside / outside the EOF look-ahead
			next = n - lookahead - 2 + rng.Intn(5)
			if next <= cur+minChunk {
				next = cur + minChunk + 1
			}
			place(next)
		}
		if next <= cur {
			break
		}
		cur = next
	}
	return data, planted, "planted"
}

func periodic(n int, rng *rand.Rand) (data []byte, planted []int, sub string) {
	periods := []int{64, 128, 1000, 4096, minChunk - 1, minChunk, minChunk + 1, minChunk + 64, 100 * kib, firstChunk, chunkLimit - 1, chunkLimit, chunkLimit + 1}
	p := periods[rng.Intn(len(periods))]
	period := fillerBytes(p, rng.Intn(3))
	copy(period[p-64:], pickWindow(rng))
	phase := rng.Intn(p)
	data = make([]byte, n)
	for i := 0; i < n; {
		k := copy(data[i:], period[(i+phase)%p:])
		i += k
	}
	// candidate positions: where a whole window has just been consumed
	for end := p - phase; end <= n; end += p {
		if end >= 64 {
			planted = append(planted, end)
		}
		if len(planted) > 4096 {
			break
		}
	}
	return data, planted, fmt.Sprintf("periodic-%d", p)
}

// ---------------------------------------------------------------- jobs

type fileCase struct {
	CaseID  string `json:"case_id"`
	Length  int    `json:"length"`
	Class   string `json:"length_class"`
	Content string `json:"content"`
	Sub     string `json:"content_detail,omitempty"`
	Shape   string `json:"reader_shape"`
	Rep     int    `json:"replica"`
	Note    string `json:"note,omitempty"`
}

func writerJobs(r *ev.Run) []job {
	var jobs []job
	reps := r.Pick(16, 150)
	bigLens := r.Pick(60, 600)
	no := 0
	add := func(fc fileCase) {
		no++
		fc.CaseID = fmt.Sprintf("w%d;", no)
		jobs = append(jobs, job{id: fc.CaseID, weight: fc.Length / (256 * kib), fn: func() { runFile(r, fc) }})
	}
	for rep := 0; rep < reps; rep++ {
		for _, lc := range lenClasses {
			if lc.n < 0 {
				continue
			}
			for _, c := range contents {
				if rep > 0 && c == "zeros" && rep%4 != 0 {
					continue // zeros has no seed-dependent content; only the reader shape varies
				}
				for _, sh := range readerShapes {
					if sh == "onebyte" && lc.n > 300*kib {
						continue
					}
					add(fileCase{Length: lc.n, Class: lc.name, Content: c, Shape: sh, Rep: rep})
				}
			}
		}
	}
	lrng := r.Rand("big-lengths")
	fixed := []int{2*mib - 1, 2 * mib, 2*mib + 1, 2*mib + 256*kib, 5 * mib, 3*mib + 256*kib + 1}
	shapes := []string{"whole", "half", "short", "dataeof", "zeroreads"}
	for i := 0; i < bigLens; i++ {
		n := 2*mib + lrng.Intn(3*mib+1)
		if i < len(fixed) {
			n = fixed[i]
		}
		for ci, c := range contents {
			for k := 0; k < 2; k++ {
				sh := shapes[(i*2+ci+k*3)%len(shapes)]
				add(fileCase{Length: n, Class: "2-5Mi", Content: c, Shape: sh, Rep: i})
			}
		}
	}
	return jobs
}

func firstDiff(a, b []byte) int {
	n := len(a)
	if len(b) < n {
		n = len(b)
	}
	for i := 0; i < n; i++ {
		if a[i] != b[i] {
			return i
		}
	}
	if len(a) != len(b) {
		return n
	}
	return -1
}

func runFile(r *ev.Run, fc fileCase) {
	rng := r.Rand("file/" + fc.CaseID)
	var data []byte
	var planted []int
	switch fc.Content {
	case "zeros":
		data = make([]byte, fc.Length)
	case "random":
		data = make([]byte, fc.Length)
		rng.Read(data)
	case "engineered":
		data, planted, fc.Sub = engineered(fc.Length, rng)
	}
	ctx := context.Background()
	st := &memory.Storage{}
	// blobserver.GetHub keeps every storage that received a blob through
	// blobserver.Receive* reachable for the life of the process: drop the contents.
	defer emptyStore(st)
	src := &srcReader{data: data, shape: fc.Shape, rng: rng}
	viol := func(sig, format string, a ...any) {
		r.Violation(sig, fmt.Sprintf("file of %d bytes (%s, %s), source reader %q: ", fc.Length, fc.Content, fc.Sub, fc.Shape)+fmt.Sprintf(format, a...), fc)
	}

	var fileRef blob.Ref
	var werr error
	if !ev.WithTimeout(5*time.Minute, func() {
		fileRef, werr = schema.WriteFileFromReader(ctx, st, "c15.bin", src)
	}) {
		r.Inconclusive(fmt.Sprintf("WriteFileFromReader did not return within 5 min (case %s)", fc.CaseID))
		return
	}
	r.Eval(1)
	if werr != nil {
		viol("write-error/"+fc.Shape, "WriteFileFromReader: %v", werr)
		return
	}
	if src.pos != len(data) {
		viol("write-error/"+fc.Shape, "writer consumed %d of %d source bytes", src.pos, len(data))
	}
	r.Note("file_length_class", fc.Class)
	r.Note("file_content", fc.Content)
	r.Note("file_reader_shape", fc.Shape)
	r.Note("file_cells", fc.Class+"/"+fc.Content+"/"+fc.Shape)
	if fc.Sub != "" {
		r.Note("file_engineered_kind", fc.Sub)
	}
	if src.dataEOF > 0 {
		r.Note("file_events", "source-returned-data+EOF")
	}
	if src.zero > 0 {
		r.Note("file_events", "source-returned-zero-read")
	}
	r.Count("files", 1)
	r.Count("file_bytes", fc.Length)
	if fc.Length > 0 {
		r.Distinct(fmt.Sprintf("file/%s/%d/%s/%s/%d", fc.Class, fc.Length, fc.Content, fc.Shape, fc.Rep))
	}

	// (a) the stored tree, read by the harness's interpreter
	get := func(ref string) ([]byte, bool) {
		br, ok := blob.Parse(ref)
		if !ok {
			return nil, false
		}
		s, ok := st.BlobContents(br)
		return []byte(s), ok
	}
	in := &interp{get: get}
	den := in.denote(fileRef.String(), "file", 1)
	r.Eval(1 + in.nSchema + len(in.chunks))
	for _, p := range in.problems {
		viol(p.sig, "%s", p.what)
	}
	if len(in.problems) == 0 {
		if len(den) != len(data) {
			viol("size/tree-length", "the stored file tree denotes %d bytes, the source had %d", len(den), len(data))
		} else if d := firstDiff(den, data); d >= 0 {
			viol("stored-tree/"+fc.Shape, "the stored file tree differs from the source at offset %d (tree %s, source %s)", d, hexs(den[d:min(d+16, len(den))]), hexs(data[d:min(d+16, len(data))]))
		}
	}
	r.Count("file_chunks", len(in.chunks))
	r.Count("file_schema_blobs", in.nSchema)
	if n := st.NumBlobs() - len(in.refs); n != 0 {
		r.Count("file_unreferenced_blobs_in_store", n)
	}
	var bounds []int
	if in.loose == 0 && len(in.problems) == 0 {
		bounds = noteFileEvents(r, fc, in, planted)
	}

	// (b) FileReader
	fr, err := schema.NewFileReader(ctx, st, fileRef)
	r.Eval(1)
	if err != nil {
		viol("open-error/"+fc.Shape, "NewFileReader: %v", err)
		return
	}
	defer fr.Close()
	r.Eval(1)
	if fr.Size() != int64(len(data)) {
		viol("size/filereader-size", "FileReader.Size()=%d, source had %d bytes", fr.Size(), len(data))
	}
	got, err := io.ReadAll(fr)
	r.Eval(1)
	if err != nil {
		viol("roundtrip/"+fc.Shape, "ReadAll: %v after %d bytes", err, len(got))
	} else if d := firstDiff(got, data); d >= 0 {
		viol("roundtrip/"+fc.Shape, "read back %d bytes, wrote %d; first difference at offset %d (read %s, source %s)", len(got), len(data), d,
			hexs(got[min(d, len(got)):min(d+16, len(got))]), hexs(data[min(d, len(data)):min(d+16, len(data))]))
	}

	// (c) ForeachChunk covers the file exactly once, in order
	pos := 0
	bad := false
	ferr := fr.ForeachChunk(ctx, func(_ []blob.Ref, p schema.BytesPart) error {
		if bad {
			return nil
		}
		size := int(p.Size)
		var seg []byte
		switch {
		case p.BytesRef.Valid():
			bad = true
			viol("foreachchunk/bytesref-part", "ForeachChunk passed a part with a bytesRef at file offset %d", pos)
			return nil
		case p.BlobRef.Valid():
			b, ok := get(p.BlobRef.String())
			if !ok {
				bad = true
				viol("missing-blob/data", "ForeachChunk names blob %s at file offset %d which is not stored", p.BlobRef, pos)
				return nil
			}
			if int(p.Offset)+size > len(b) {
				bad = true
				viol("foreachchunk/part-exceeds-blob", "chunk at file offset %d wants [%d:%d] of a %d byte blob", pos, p.Offset, int(p.Offset)+size, len(b))
				return nil
			}
			seg = b[p.Offset : int(p.Offset)+size]
		default:
			seg = make([]byte, size)
		}
		if pos+size > len(data) || !bytes.Equal(seg, data[pos:pos+size]) {
			bad = true
			viol("foreachchunk/content", "chunk [%d:%d] does not equal that range of the source (length %d)", pos, pos+size, len(data))
			return nil
		}
		pos += size
		return nil
	})
	r.Eval(1)
	if ferr != nil {
		viol("foreachchunk/error", "ForeachChunk: %v", ferr)
	} else if !bad && pos != len(data) {
		viol("foreachchunk/length", "ForeachChunk covered %d bytes of %d", pos, len(data))
	}

	// (d) ReadAt around the chunk boundaries of the real tree
	if len(data) > 0 {
		offs := []int{0, len(data) - 1, len(data) / 2}
		for i, b := range bounds {
			if i < 6 || rng.Intn(8) == 0 {
				offs = append(offs, b-1, b, b-3)
			}
		}
		for _, off := range offs {
			if off < 0 || off >= len(data) {
				continue
			}
			for _, l := range []int{1, 2, 5, 1 + rng.Intn(200*kib)} {
				want := data[off:min(off+l, len(data))]
				buf := make([]byte, l)
				n, err := fr.ReadAt(buf, int64(off))
				r.Eval(1)
				r.Count("file_readat", 1)
				okErr := err == nil || (n < l && (errors.Is(err, io.EOF) || errors.Is(err, io.ErrUnexpectedEOF))) || (off+n == len(data) && errors.Is(err, io.EOF))
				if n != len(want) || !bytes.Equal(buf[:n], want) || !okErr || (n < l && err == nil) {
					viol("readat/writer-tree", "ReadAt(off=%d,len=%d) = (%d, %v), want %d bytes; first difference at +%d", off, l, n, err, len(want), firstDiff(buf[:n], want))
				}
			}
		}
	}
	// (e) one blob below a bytesRef part unfetchable, through every read path (deepfaults.go)
	if len(data) > 0 && len(in.problems) == 0 {
		checkDeepFaults(r, r.Rand("deepfault/"+fc.CaseID), st, fileRef, data, "writer-file", func(sig, op, format string, a ...any) {
			viol(sig, "%s: "+format, append([]any{op}, a...)...)
		})
	}
	if fc.Length > firstChunk && atomic.AddInt32(&fileSamples, 1) <= 2 {
		r.Sample(map[string]any{"kind": "file", "case": fc, "chunks": len(in.chunks), "schema_blobs": in.nSchema, "tree_depth": in.maxDepth})
	}
}

// noteFileEvents labels what the chunker was observed to do (no verdicts) and returns
// the chunk boundaries.
func noteFileEvents(r *ev.Run, fc fileCase, in *interp, planted []int) []int {
	note := func(s string) { r.Note("file_events", s) }
	if fc.Length == 0 && len(in.chunks) == 0 {
		note("empty-file")
		return nil
	}
	if len(in.chunks) == 1 {
		note("single-chunk")
	}
	if fc.Length > firstChunk && len(in.chunks) > 0 {
		switch {
		case in.chunks[0].size == firstChunk:
			note("first-chunk=256Ki")
		case in.chunks[0].size > firstChunk:
			note("first-chunk-extended")
		}
	}
	if in.maxDepth >= 2 {
		note("nested-bytes")
	}
	if in.maxDepth >= 3 {
		note("tree-depth>=3")
	}
	r.Note("file_tree_depth", fmt.Sprint(in.maxDepth))
	isBound := map[int]bool{}
	var bounds []int
	pos := 0
	for i, c := range in.chunks {
		if c.size == chunkLimit {
			note("hard-cap-chunk=1Mi")
		}
		if i > 0 && c.size == minChunk+1 {
			note("chunk=min+1")
		}
		if i > 0 && c.ref != "" && c.ref == in.chunks[i-1].ref {
			note("dedup-same-blob-adjacent")
		}
		pos += c.size
		if pos < fc.Length {
			bounds = append(bounds, pos)
			isBound[pos] = true
		}
	}
	for _, p := range planted {
		if p >= fc.Length {
			continue
		}
		i := sort.SearchInts(bounds, p)
		prev := 0
		if i > 0 {
			prev = bounds[i-1]
		}
		d := p - prev
		taken := isBound[p]
		switch {
		case p < firstChunk && !taken:
			note("planted-before-first-chunk-ignored")
		case p == firstChunk:
			note("planted-at-first-chunk")
		case !taken && d == minChunk:
			note("planted-at-min-ignored")
		case !taken && d < minChunk:
			note("planted-below-min-ignored")
		case !taken && fc.Length-p <= lookahead+1:
			note("planted-near-eof-ignored")
		case !taken:
			note("planted-ignored-other")
		case taken && d == minChunk+1:
			note("planted-at-min+1-taken")
		case taken && d == chunkLimit:
			note("planted-at-hard-cap")
		case taken && d == chunkLimit-1:
			note("planted-at-hard-cap-1-taken")
		case taken:
			note("planted-taken")
		}
	}
	return bounds
}
