package main

// Part 2c: file/bytes trees with holes larger than a page, read with ONE call into
// buffers that already hold other (non-zero) bytes.
//
// bytes.md: a part with neither blobRef nor bytesRef denotes `size` zero bytes.  A reader
// serves such a part by writing zeros into the CALLER's buffer; io.Reader / io.ReaderAt
// say the n bytes it reports are p[:n], whatever p held before the call.  The other tree
// families read into fresh (all-zero) buffers and their holes are at most 20 bytes long,
// so a reader that reports hole bytes it never wrote looks right there.  Here every
// buffer is pre-filled with a non-zero pattern, holes are 4 KiB-1 ... 2 MiB long, and the
// buffers (4 KiB+1, 8 KiB, 64 KiB, 1 MiB, seeded sizes) take many pages of a hole in one
// ReadAt / Read / io.ReadFull call, or are reused across data and hole parts by
// io.CopyBuffer.  The oracle is the same interpreter of the stored JSON as for Part 2.

import (
	"bytes"
	"context"
	"errors"
	"fmt"
	"io"
	"math/rand"
	"sort"
	"strings"

	"perkeep.org/pkg/blobserver/memory"
	"perkeep.org/pkg/schema"

	"verif.local/harness/ev"
	"verif.local/harness/sto"
)

// dirty fills b with a position-dependent pattern that never contains a zero byte.
func dirty(b []byte, salt int) {
	for i := range b {
		b[i] = byte(1 + (i*7+salt)%255)
	}
}

// dirtyBuf returns a new buffer of n non-zero bytes.
func dirtyBuf(n, salt int) []byte {
	b := make([]byte, n)
	dirty(b, salt)
	return b
}

// unwritten describes a mismatch between what a read reported (got) and the denotation
// (want) when the differing bytes are exactly what the buffer held before the call.
func unwritten(got, want []byte, salt int) string {
	d := firstDiff(got, want)
	if d < 0 || d >= len(got) || d >= len(want) {
		return ""
	}
	stale := 0
	for i := d; i < len(got) && i < len(want); i++ {
		if got[i] != want[i] && got[i] == byte(1+(i*7+salt)%255) {
			stale++
		}
	}
	if stale == 0 {
		return ""
	}
	return fmt.Sprintf("; %d of the reported bytes from index %d on are what the caller's buffer held BEFORE the call (the reader reported bytes it did not write)", stale, d)
}

var holeSizes = []int{4095, 4096, 4097, 4098, 8191, 8192, 8193, 12 << 10, 20 << 10, 64<<10 - 1, 64 << 10, 64<<10 + 1, 64<<10 + 4097, 100000}
var megaHoleSizes = []int{1<<20 - 1, 1 << 20, 1<<20 + 1, 1<<20 + 4097, 2<<20 + 12345}

type holeGen struct {
	rng    *rand.Rand
	pool   []*dblob
	shapes map[string]bool
	mega   bool // the tree gets one hole of about 1 MiB or more
	nmega  int
}

func (g *holeGen) blob() *dblob {
	rng := g.rng
	if len(g.pool) > 0 && rng.Intn(3) == 0 {
		return g.pool[rng.Intn(len(g.pool))]
	}
	var n int
	switch k := rng.Intn(10); {
	case k < 3:
		n = 1 + rng.Intn(40)
	case k < 7:
		n = 1000 + rng.Intn(8000)
	default:
		n = 3000 + rng.Intn(20000)
	}
	data := make([]byte, n)
	rng.Read(data)
	for i := range data {
		if data[i] == 0 {
			data[i] = 0xA5 // data parts never look like a hole
		}
	}
	b := &dblob{data: data, ref: sto.RefOf("sha224", data)}
	g.pool = append(g.pool, b)
	return b
}

func (g *holeGen) holeSize() int {
	rng := g.rng
	if g.mega && g.nmega == 0 && rng.Intn(2) == 0 {
		g.nmega++
		return megaHoleSizes[rng.Intn(len(megaHoleSizes))]
	}
	s := holeSizes[rng.Intn(len(holeSizes))]
	if rng.Intn(4) == 0 {
		s = 4097 + rng.Intn(90000)
	}
	return s
}

func (g *holeGen) node(depth int, root bool) *tnode {
	rng := g.rng
	n := &tnode{typ: "bytes"}
	if root && rng.Intn(2) == 0 {
		n.typ = "file"
	}
	nparts := 2 + rng.Intn(4)
	hasHole := false
	for i := 0; i < nparts; i++ {
		k := rng.Intn(10)
		if i == nparts-1 && !hasHole && depth == 1 {
			k = 0
		}
		switch {
		case k < 4:
			n.parts = append(n.parts, tpart{kind: kHole, size: g.holeSize()})
			hasHole = true
		case k < 7 || depth <= 1:
			b := g.blob()
			off, size := 0, len(b.data)
			if size > 2 {
				switch rng.Intn(4) {
				case 0:
					off = 1 + rng.Intn(size-2)
					size -= off
					g.shapes["blob-offset"] = true
				case 1:
					size = 1 + rng.Intn(size-1)
					g.shapes["blob-short"] = true
				}
			}
			n.parts = append(n.parts, tpart{kind: kBlob, b: b, off: off, size: size})
		default:
			c := g.node(depth-1, false)
			// a window of the child: whole, or starting / ending inside (or next to) one
			// of its leaf segments, so that windows begin and end in the middle of holes
			var segs []seg
			segments(c, 0, len(c.den), 0, &segs)
			pick := func() int {
				s := segs[rng.Intn(len(segs))]
				switch rng.Intn(4) {
				case 0:
					return s.start
				case 1:
					return s.end
				case 2:
					return s.start + rng.Intn(s.end-s.start)
				}
				return max(s.start, s.end-1-rng.Intn(min(s.end-s.start, 5000)))
			}
			a, b := 0, len(c.den)
			if rng.Intn(3) > 0 {
				a, b = pick(), pick()
				if a > b {
					a, b = b, a
				}
				if a == b {
					a, b = 0, len(c.den)
				}
			}
			if a > 0 {
				g.shapes["bytes-offset"] = true
			}
			if b < len(c.den) {
				g.shapes["bytes-short"] = true
			}
			if a == 0 && b == len(c.den) {
				g.shapes["bytes-full"] = true
			}
			n.parts = append(n.parts, tpart{kind: kBytes, child: c, off: a, size: b - a})
		}
	}
	if g.mega && root && g.nmega == 0 {
		g.nmega++
		at := rng.Intn(len(n.parts) + 1)
		n.parts = append(n.parts[:at:at], append([]tpart{{kind: kHole, size: megaHoleSizes[rng.Intn(len(megaHoleSizes))]}}, n.parts[at:]...)...)
	}
	n.finish(false)
	return n
}

// holeSegs returns the leaf segments of t that are holes, in root coordinates.
func holeSegs(t *tnode, lo, hi, base int, out *[]seg) {
	pos := 0
	for _, p := range t.parts {
		s, e := pos, pos+p.size
		pos = e
		cs, ce := max(s, lo), min(e, hi)
		if cs >= ce {
			continue
		}
		switch p.kind {
		case kBytes:
			holeSegs(p.child, p.off+(cs-s), p.off+(ce-s), base+(cs-lo), out)
		case kHole:
			*out = append(*out, seg{base + (cs - lo), base + (ce - lo)})
		}
	}
}

// holeCover is the largest number of bytes of one hole segment inside [off, off+n).
func holeCover(holes []seg, off, n int) int {
	best := 0
	for _, h := range holes {
		if c := min(h.end, off+n) - max(h.start, off); c > best {
			best = c
		}
	}
	return best
}

func coverClass(c int) string {
	switch {
	case c >= 1<<20:
		return "one-call-hole-bytes>=1Mi"
	case c >= 64<<10:
		return "one-call-hole-bytes>=64Ki"
	case c > 4096:
		return "one-call-hole-bytes>4Ki"
	case c > 0:
		return "one-call-hole-bytes<=4Ki"
	}
	return "no-hole-bytes"
}

func bufClass(n int) string {
	switch n {
	case 4097:
		return "buf=4Ki+1"
	case 8192:
		return "buf=8Ki"
	case 64 << 10:
		return "buf=64Ki"
	case 1 << 20:
		return "buf=1Mi"
	}
	return "buf=seeded"
}

func holeJobs(r *ev.Run) []job {
	n := r.Pick(240, 3000)
	var jobs []job
	for i := 0; i < n; i++ {
		id := fmt.Sprintf("z%d;", i)
		i := i
		w := 1
		if i%4 == 0 {
			w = 2 // trees with a hole of 1 MiB or more
		}
		jobs = append(jobs, job{id: id, weight: w, fn: func() { runHoleTree(r, id, i) }})
	}
	return jobs
}

// onlyReader / onlyWriter hide io.WriterTo / io.ReaderFrom so that io.CopyBuffer has to
// use the buffer it is given.
type onlyReader struct{ io.Reader }
type onlyWriter struct{ io.Writer }

func runHoleTree(r *ev.Run, id string, idx int) {
	rng := r.Rand("holetree/" + id)
	g := &holeGen{rng: rng, shapes: map[string]bool{}, mega: idx%4 == 0}
	var root *tnode
	if idx == 1 {
		// the plain shape first: data, one 20 KiB hole, data
		a, b := g.blob(), g.blob()
		root = &tnode{typ: "file", parts: []tpart{{kind: kBlob, b: a, size: len(a.data)}, {kind: kHole, size: 20 << 10}, {kind: kBlob, b: b, size: len(b.data)}}}
		root.finish(false)
	} else {
		root = g.node([]int{1, 1, 2, 2, 3}[rng.Intn(5)], true)
	}
	schemaBlobs := map[string]*tnode{}
	dataBlobs := map[string]*dblob{}
	collect(root, schemaBlobs, dataBlobs)

	ctx := context.Background()
	st := &memory.Storage{}
	tc := treeCase{CaseID: id, Root: root.ref.String(), Schema: map[string]string{}, Data: map[string]string{}}
	for ref, n := range schemaBlobs {
		tc.Schema[ref] = n.js
		if _, err := st.ReceiveBlob(ctx, n.ref, strings.NewReader(n.js)); err != nil {
			r.Inconclusive("memory store refused a schema blob: " + err.Error())
			return
		}
	}
	for ref, b := range dataBlobs {
		tc.Data[ref] = show(b.data)
		if _, err := st.ReceiveBlob(ctx, b.ref, bytes.NewReader(b.data)); err != nil {
			r.Inconclusive("memory store refused a data blob: " + err.Error())
			return
		}
	}
	want := root.den
	size := len(want)
	in := &interp{get: func(ref string) ([]byte, bool) {
		if n, ok := schemaBlobs[ref]; ok {
			return []byte(n.js), true
		}
		if b, ok := dataBlobs[ref]; ok {
			return b.data, true
		}
		return nil, false
	}}
	den := in.denote(root.ref.String(), "file", 1)
	if len(in.problems) > 0 || !bytes.Equal(den, want) {
		r.Inconclusive(fmt.Sprintf("harness bug: generated hole tree %s is not well-formed or generator and interpreter disagree: %v", id, in.problems))
		return
	}
	var holes []seg
	holeSegs(root, 0, size, 0, &holes)
	var bigHoles []seg
	longest := 0
	for _, h := range holes {
		if h.end-h.start > 4096 {
			bigHoles = append(bigHoles, h)
		}
		longest = max(longest, h.end-h.start)
	}
	for s := range g.shapes {
		r.Note("hole_tree_shape", s)
	}
	r.Note("hole_tree_shape", "root="+root.typ)
	r.Note("hole_tree_shape", fmt.Sprintf("depth=%d", root.depth))
	switch {
	case longest >= 1<<20:
		r.Note("hole_tree_shape", "hole>=1Mi")
	case longest >= 64<<10:
		r.Note("hole_tree_shape", "hole>=64Ki")
	case longest > 4096:
		r.Note("hole_tree_shape", "hole>4Ki")
	default:
		r.Note("hole_tree_shape", "holes<=4Ki-only")
	}
	r.Count("hole_trees", 1)
	r.Distinct("hole-tree/" + root.ref.String())
	if idx == 1 {
		r.Sample(map[string]any{"kind": "hole tree", "case": tc, "denoted_size": size, "hole_segments": holes})
	}

	nviol := 0
	viol := func(sig, op, format string, a ...any) {
		nviol++
		c := tc
		c.Op = op
		r.Violation(sig, fmt.Sprintf("tree %s (%d bytes, depth %d, longest hole %d bytes): %s: ", root.ref, size, root.depth, longest, op)+fmt.Sprintf(format, a...), c)
	}

	fr, err := schema.NewFileReader(ctx, st, root.ref)
	r.Eval(1)
	if err != nil {
		viol("open-error/tree-"+root.typ, "NewFileReader", "%v", err)
		return
	}
	defer fr.Close()
	r.Eval(1)
	if fr.Size() != int64(size) {
		viol("size/filereader-size-tree", "Size", "Size()=%d, the tree denotes %d bytes", fr.Size(), size)
	}

	// ---- read plan: (offset, buffer size) pairs, one call each
	fixed := []int{4097, 8192, 64 << 10, 1 << 20}
	type rd struct{ off, n int }
	var reads []rd
	reads = append(reads, rd{0, size}, rd{0, size + 1})
	pickHoles := append([]seg(nil), bigHoles...)
	rng.Shuffle(len(pickHoles), func(i, j int) { pickHoles[i], pickHoles[j] = pickHoles[j], pickHoles[i] })
	if len(pickHoles) > 4 {
		pickHoles = pickHoles[:4]
	}
	sort.Slice(pickHoles, func(i, j int) bool { return pickHoles[i].start < pickHoles[j].start })
	for hi, h := range pickHoles {
		hl := h.end - h.start
		offs := []int{
			h.start,                              // the call starts with the hole
			h.start + 1 + rng.Intn(hl-1),         // ... strictly inside it
			max(0, h.start-1-rng.Intn(3000)),     // ... in what precedes the hole and runs into it
			max(0, h.end-4097-rng.Intn(hl-4096)), // ... so that it leaves the hole after more than a page
		}
		for oi, off := range offs {
			// every fixed buffer size appears for every hole; the seeded ones vary
			b1 := fixed[(hi+oi)%len(fixed)]
			b2 := fixed[(hi+oi+1+rng.Intn(3))%len(fixed)]
			reads = append(reads, rd{off, b1}, rd{off, b2}, rd{off, 4097 + rng.Intn(200000)})
		}
	}
	for _, q := range reads {
		if nviol >= 3 {
			break
		}
		salt := rng.Intn(255)
		buf := dirtyBuf(q.n, salt)
		n, err := fr.ReadAt(buf, int64(q.off))
		r.Eval(1)
		r.Count("hole_tree_readat", 1)
		op := fmt.Sprintf("ReadAt(off=%d, len=%d) into a buffer filled with non-zero bytes", q.off, q.n)
		if q.off >= size {
			if n != 0 || !errors.Is(err, io.EOF) {
				viol("readat/beyond-eof", op, "= (%d, %v), want (0, EOF)", n, err)
			}
			continue
		}
		exp := want[q.off:min(q.off+q.n, size)]
		cover := holeCover(holes, q.off, len(exp))
		r.Note("hole_read", "readat:"+coverClass(cover))
		if cover > 4096 {
			r.Note("hole_read", "readat:"+bufClass(q.n))
		}
		switch {
		case n != len(exp) || !bytes.Equal(buf[:max(n, 0)], exp):
			got := buf[:min(max(n, 0), len(buf))]
			viol("readat/hole-tree/"+readShape(root, q.off, q.n), op, "returned %d bytes (err=%v), the schema denotes %d bytes; first difference at index %d of the read (file offset %d): got %s, want %s%s",
				n, err, len(exp), firstDiff(got, exp), q.off+firstDiff(got, exp), around(got, firstDiff(got, exp)), around(exp, firstDiff(got, exp)), unwritten(got, exp, salt))
		case n < q.n && err == nil:
			viol("readat-error/short-without-error", op, "returned %d < %d bytes with a nil error", n, q.n)
		case err != nil && !((n < q.n || q.off+n == size) && (errors.Is(err, io.EOF) || errors.Is(err, io.ErrUnexpectedEOF))):
			viol("readat-error/"+readShape(root, q.off, q.n), op, "returned the right %d bytes but error %v", n, err)
		}
	}

	// ---- Seek + one Read / io.ReadFull into a dirty buffer
	if nviol < 3 {
		fr2, err := schema.NewFileReader(ctx, st, root.ref)
		if err != nil {
			viol("open-error/tree-"+root.typ, "NewFileReader", "%v", err)
			return
		}
		defer fr2.Close()
		for i, q := range reads {
			if nviol >= 3 {
				break
			}
			if i%3 != idx%3 || q.off >= size {
				continue // a seeded third of the plan
			}
			if _, err := fr2.Seek(int64(q.off), io.SeekStart); err != nil {
				viol("seek/position", fmt.Sprintf("Seek(%d, SeekStart)", q.off), "%v", err)
				break
			}
			salt := rng.Intn(255)
			buf := dirtyBuf(q.n, salt)
			full := rng.Intn(2) == 0
			var n int
			var op string
			if full {
				n, err = io.ReadFull(fr2, buf)
				op = fmt.Sprintf("Seek(%d); io.ReadFull(len=%d) into a buffer filled with non-zero bytes", q.off, q.n)
			} else {
				n, err = fr2.Read(buf)
				op = fmt.Sprintf("Seek(%d); Read(len=%d) into a buffer filled with non-zero bytes", q.off, q.n)
			}
			r.Eval(1)
			r.Count("hole_tree_read", 1)
			avail := min(q.n, size-q.off)
			okN := n == avail || (!full && n >= 1 && n <= avail)
			m := min(max(n, 0), avail)
			exp := want[q.off : q.off+m]
			cover := holeCover(holes, q.off, m)
			r.Note("hole_read", "read:"+coverClass(cover))
			if cover > 4096 {
				r.Note("hole_read", "read:"+bufClass(q.n))
			}
			if !okN || !bytes.Equal(buf[:m], exp) {
				got := buf[:m]
				viol("read/hole-tree/"+readShape(root, q.off, avail), op, "returned %d bytes (err=%v), %d are available; first difference at index %d of the read (file offset %d): got %s, want %s%s",
					n, err, avail, firstDiff(got, exp), q.off+firstDiff(got, exp), around(got, firstDiff(got, exp)), around(exp, firstDiff(got, exp)), unwritten(got, exp, salt))
				break
			}
			if err != nil && !(errors.Is(err, io.EOF) && q.off+n == size) && !(full && n < q.n && errors.Is(err, io.ErrUnexpectedEOF)) {
				viol("seek/read-error", op, "returned the right bytes but error %v", err)
				break
			}
		}
	}

	// ---- io.CopyBuffer through one reused buffer: the buffer a hole is read into was
	// last filled by whatever part came before it
	cbSizes := []int{fixed[idx%len(fixed)], fixed[(idx+1+rng.Intn(3))%len(fixed)], 16 << 10}
	if r.Thorough() {
		cbSizes = append(fixed[:len(fixed):len(fixed)], 16<<10, 4097+rng.Intn(100000))
	}
	for _, bs := range cbSizes {
		if nviol >= 3 {
			break
		}
		fr3, err := schema.NewFileReader(ctx, st, root.ref)
		if err != nil {
			break
		}
		salt := rng.Intn(255)
		var out bytes.Buffer
		out.Grow(size)
		nc, err := io.CopyBuffer(onlyWriter{&out}, onlyReader{fr3}, dirtyBuf(bs, salt))
		fr3.Close()
		r.Eval(1)
		r.Count("hole_tree_copybuffer", 1)
		r.Note("hole_read", "copybuffer:"+bufClass(bs))
		got := out.Bytes()
		if err != nil || nc != int64(size) || !bytes.Equal(got, want) {
			d := firstDiff(got, want)
			viol("copybuffer/hole-tree", fmt.Sprintf("io.CopyBuffer with a reused %d-byte buffer", bs), "copied %d bytes (err=%v), the schema denotes %d bytes; first difference at file offset %d: got %s, want %s", nc, err, size, d, around(got, d), around(want, d))
		}
	}

	// ---- the same tree through a fetcher that fails one seeded fetch once (treefaults.go)
	if nviol < 3 {
		checkTreeAfterFault(r, rng, st, root, schemaBlobs, viol)
	}
	// ---- a blob BELOW a bytesRef part unfetchable, through every read path (deepfaults.go)
	if nviol < 3 {
		checkDeepFaults(r, r.Rand("deepfault/"+id), st, root.ref, want, "hole-tree", viol)
	}

	// ---- control: io.ReadAll (fresh memory)
	if nviol < 3 {
		fr4, err := schema.NewFileReader(ctx, st, root.ref)
		if err == nil {
			got, err := io.ReadAll(fr4)
			fr4.Close()
			r.Eval(1)
			if err != nil || !bytes.Equal(got, want) {
				d := firstDiff(got, want)
				viol("readall/hole-tree", "io.ReadAll", "returned %d bytes (err=%v), the schema denotes %d bytes; first difference at %d: got %s, want %s", len(got), err, size, d, around(got, d), around(want, d))
			}
		}
	}
}

// around renders a few bytes of b at index i.
func around(b []byte, i int) string {
	if i < 0 || i >= len(b) {
		return fmt.Sprintf("(nothing at %d: %d bytes)", i, len(b))
	}
	return fmt.Sprintf("%x", b[i:min(i+12, len(b))])
}
