package main

import (
	"encoding/json"
	"fmt"
)

// The harness's own reading of doc/schema/bytes.md.  No code shared with pkg/schema.

type jpart struct {
	BlobRef  string  `json:"blobRef"`
	BytesRef string  `json:"bytesRef"`
	Size     *uint64 `json:"size"`
	Offset   uint64  `json:"offset"`
}

type jnode struct {
	Version  int     `json:"camliVersion"`
	Type     string  `json:"camliType"`
	Parts    []jpart `json:"parts"`
	FileName string  `json:"fileName"`
}

// problem is a defect of a stored tree found by the interpreter.
type problem struct {
	sig  string
	what string
}

type chunkRef struct {
	ref  string
	size int
}

// interp walks a file/bytes tree in a blob map.
type interp struct {
	get func(ref string) ([]byte, bool)

	problems []problem
	chunks   []chunkRef // leaf blobRef/hole parts in file order (meaningful when every bytesRef part is tight)
	maxDepth int
	nSchema  int
	nHoles   int
	loose    int // bytesRef/blobRef parts that reference less than their whole referent
	refs     map[string]bool
}

func (in *interp) fail(sig, format string, a ...any) {
	if len(in.problems) < 8 {
		in.problems = append(in.problems, problem{sig, fmt.Sprintf(format, a...)})
	}
}

// denote returns the bytes the schema blob ref denotes.  kind is "file" or "bytes"
// (what the referrer requires).
func (in *interp) denote(ref string, kind string, depth int) []byte {
	if in.refs == nil {
		in.refs = map[string]bool{}
	}
	if depth > in.maxDepth {
		in.maxDepth = depth
	}
	if depth > 64 {
		in.fail("malformed-tree/too-deep", "nesting deeper than 64 at %s", ref)
		return nil
	}
	raw, ok := in.get(ref)
	if !ok {
		in.fail("missing-blob/"+kind, "%s schema blob %s is referenced but not stored", kind, ref)
		return nil
	}
	in.refs[ref] = true
	in.nSchema++
	var n jnode
	if err := json.Unmarshal(raw, &n); err != nil {
		in.fail("malformed-schema/"+kind, "blob %s is not JSON: %v", ref, err)
		return nil
	}
	if n.Version != 1 {
		in.fail("malformed-schema/"+kind, "blob %s has camliVersion %d", ref, n.Version)
	}
	if kind == "bytes" && n.Type != "bytes" {
		in.fail("malformed-schema/bytes", "bytesRef %s points at camliType %q", ref, n.Type)
		return nil
	}
	if kind == "file" && n.Type != "file" && n.Type != "bytes" {
		in.fail("malformed-schema/file", "root %s has camliType %q", ref, n.Type)
		return nil
	}
	var out []byte
	for i, p := range n.Parts {
		if p.Size == nil {
			in.fail("malformed-schema/part-without-size", "part %d of %s has no size", i, ref)
			return out
		}
		size := int(*p.Size)
		if size == 0 {
			in.fail("size/zero-size-part", "part %d of %s has size 0 (bytes.md: must be greater than zero)", i, ref)
		}
		switch {
		case p.BlobRef != "" && p.BytesRef != "":
			in.fail("malformed-schema/both-refs", "part %d of %s has both blobRef and bytesRef", i, ref)
			return out
		case p.BlobRef == "" && p.BytesRef == "":
			in.nHoles++
			in.chunks = append(in.chunks, chunkRef{"", size})
			out = append(out, make([]byte, size)...)
		case p.BlobRef != "":
			data, ok := in.get(p.BlobRef)
			if !ok {
				in.fail("missing-blob/data", "data blob %s (part %d of %s) is referenced but not stored", p.BlobRef, i, ref)
				out = append(out, make([]byte, size)...)
				continue
			}
			in.refs[p.BlobRef] = true
			if len(data) > chunkLimit {
				in.fail("chunk-too-large", "data blob %s (part %d of %s) has %d bytes > %d", p.BlobRef, i, ref, len(data), chunkLimit)
			}
			off := int(p.Offset)
			if off+size > len(data) {
				in.fail("size/part-exceeds-blob", "part %d of %s wants [%d:%d] of blob %s which has %d bytes", i, ref, off, off+size, p.BlobRef, len(data))
				out = append(out, make([]byte, size)...)
				continue
			}
			if off != 0 || size != len(data) {
				in.loose++
			}
			in.chunks = append(in.chunks, chunkRef{p.BlobRef, size})
			out = append(out, data[off:off+size]...)
		default:
			sub := in.denote(p.BytesRef, "bytes", depth+1)
			off := int(p.Offset)
			if off+size > len(sub) {
				in.fail("size/part-exceeds-bytes", "part %d of %s wants [%d:%d] of bytes blob %s which denotes %d bytes", i, ref, off, off+size, p.BytesRef, len(sub))
				out = append(out, make([]byte, size)...)
				continue
			}
			if off != 0 || size != len(sub) {
				in.loose++
			}
			out = append(out, sub[off:off+size]...)
		}
	}
	return out
}
