package main

import (
	"context"
	"encoding/json"
	"errors"
	"fmt"
	"io"
	"runtime/debug"
	"sort"
	"strings"
	"sync"
	"sync/atomic"

	"perkeep.org/pkg/blob"
	"perkeep.org/pkg/blobserver/memory"
	"perkeep.org/pkg/schema"

	"verif.local/harness/ev"
	"verif.local/harness/sto"
)

type dirCase struct {
	CaseID string `json:"case_id"`
	// M is the static-set splitting threshold the case sets through the verif hook;
	// 0 = the threshold is left alone (perkeep's production default).
	M       int    `json:"max_static_set_members"`
	Count   int    `json:"members"`
	Variant string `json:"variant"` // distinct | dupes | all-same | entries (members are stored file/directory/symlink schema blobs)
	// Hash names the digest of the member refs: "" = sha224, or sha1, sha256, mixed.
	Hash string `json:"member_ref_hash,omitempty"`
}

func (dc dirCase) thr() string {
	if dc.M == 0 {
		return "production-threshold"
	}
	return "lowered-threshold"
}

func (dc dirCase) thrText() string {
	if dc.M == 0 {
		return "production static-set threshold (unchanged)"
	}
	return fmt.Sprintf("static-set threshold %d", dc.M)
}

type jset struct {
	Type      string   `json:"camliType"`
	Members   []string `json:"members"`
	MergeSets []string `json:"mergeSets"`
}

// setShape reads the uploaded static-set blobs with the harness's own parser and
// reports how the set was split: nesting depth, whether the last top-level subset is
// smaller than the first, and the largest entry list of any blob.
func setShape(get func(string) (string, bool), top string) (depth int, rest bool, maxEntries int, ok bool) {
	var leaves func(ref string, d int) (int, bool)
	leaves = func(ref string, d int) (int, bool) {
		if d > depth {
			depth = d
		}
		if d > 32 {
			return 0, false
		}
		s, found := get(ref)
		if !found {
			return 0, false
		}
		var js jset
		if json.Unmarshal([]byte(s), &js) != nil || js.Type != "static-set" {
			return 0, false
		}
		if n := len(js.Members); n > maxEntries {
			maxEntries = n
		}
		if n := len(js.MergeSets); n > maxEntries {
			maxEntries = n
		}
		if len(js.MergeSets) == 0 {
			return len(js.Members), true
		}
		total := 0
		var first, last int
		for i, sub := range js.MergeSets {
			n, ok := leaves(sub, d+1)
			if !ok {
				return 0, false
			}
			if i == 0 {
				first = n
			}
			last = n
			total += n
		}
		if d == 1 && last < first {
			rest = true
		}
		return total, true
	}
	_, ok = leaves(top, 1)
	return
}

func dirCounts(m int, thorough bool, rngInts func(n int) int) []int {
	set := map[int]bool{}
	add := func(ns ...int) {
		for _, n := range ns {
			if n >= 0 {
				set[n] = true
			}
		}
	}
	m2, m3 := m*m, m*m*m
	add(0, 1, 2, m-1, m, m+1, 2*m-1, 2*m, 2*m+1, 3*m)
	add(m2-m-1, m2-m, m2-m+1, m2-2, m2-1, m2, m2+1, m2+2, m2+m-2, m2+m-1, m2+m, m2+m+1)
	add((m-1)*(m+1), (m-1)*(m+2), (m-1)*(m+2)+1, (m-1)*2*m, (m-1)*2*m+1)
	add(m3-m2-1, m3-m2, m3-m2+1, m3-m, m3-1, m3, m3+1, m3+m-1, m3+m, m3+m2, m3+m2+1)
	add((m-1)*m2-1, (m-1)*m2, (m-1)*m2+1)
	if m <= 4 {
		m4 := m3 * m
		add(m4-1, m4, m4+1, (m-1)*m3, (m-1)*m3+1, m4+m3+m2+m+1)
	}
	if thorough {
		for n := 0; n <= m3+m2+m+2; n++ {
			add(n)
		}
		if m == 7 {
			add(6*343-1, 6*343, 6*343+1, 2400, 2401, 2402)
		}
		if m <= 4 {
			for n := m3 * m; n <= m3*m+m3; n += 1 + rngInts(3) {
				add(n)
			}
		}
	} else {
		for i := 0; i < 10; i++ {
			add(rngInts(m3 + m2))
		}
	}
	var out []int
	for n := range set {
		out = append(out, n)
	}
	sort.Ints(out)
	return out
}

func runDirs(r *ev.Run) {
	// Production-threshold directories first: nothing in this process has touched
	// schema.maxStaticSetMembers yet (the lowered-threshold part below restores it after
	// every m, but these cases must not depend on that).
	runProdDirs(r)
	for _, m := range []int{3, 4, 7} {
		runDirsM(r, m)
	}
}

// prodDirCases lists the directories written with perkeep's own splitting threshold.
// A member costs len(ref)+8 bytes of static-set JSON, so these are the only cases in
// which "the subsets the writer produces fit in a schema blob" is exercised at all.
func prodDirCases(r *ev.Run) []dirCase {
	rng := r.Rand("dirs/production")
	big := 34000 + rng.Intn(2000) // ~35 000: three full subsets and a rest
	mk := func(n int, hash, variant string) dirCase {
		h := hash
		if h == "" {
			h = "sha224"
		}
		return dirCase{CaseID: fmt.Sprintf("dP-%d-%s-%s;", n, h, variant), Count: n, Variant: variant, Hash: hash}
	}
	// quick: the one case most sensitive to "threshold x bytes-per-member > schema blob
	// limit" (longest refs, several full subsets and a rest) ...
	// ... one between the threshold and the next multiple, and one just-split directory
	// of stored entries listed through Readdir (all three together cost well under 1 s)
	cases := []dirCase{mk(big, "sha256", "distinct"), mk(15000, "", "distinct"), mk(10001, "", "entries")}
	if r.Thorough() {
		for _, n := range []int{9999, 10000, 10001, 19999, 20000, 20001, 30000, big + 1} {
			cases = append(cases, mk(n, "", "distinct"))
		}
		for _, n := range []int{10000, 10001, 15000, 20001} {
			cases = append(cases, mk(n, "sha256", "distinct"))
		}
		cases = append(cases,
			mk(20001, "mixed", "distinct"), mk(12000+rng.Intn(8000), "sha1", "distinct"),
			mk(20001, "", "dupes"), mk(10001, "", "all-same"), mk(12000+rng.Intn(8000), "mixed", "dupes"),
			// members that are stored entries, listed through Readdir
			mk(10000, "", "entries"), mk(15000+rng.Intn(5000), "", "entries"))
	}
	return cases
}

func runProdDirs(r *ev.Run) {
	for _, dc := range prodDirCases(r) {
		if !r.Only(dc.CaseID) {
			continue
		}
		r.Guard("directory", dc, func() { runDir(r, dc) })
	}
}

func runDirsM(r *ev.Run, m int) {
	old := schema.VerifSetMaxStaticSetMembers(m)
	defer schema.VerifSetMaxStaticSetMembers(old)
	if old <= 7 {
		r.Inconclusive(fmt.Sprintf("static-set threshold was already %d before the check set it", old))
	}
	r.Extra("dir_production_threshold_seen_by_hook", old)
	rng := r.Rand(fmt.Sprintf("dirs/%d", m))
	counts := dirCounts(m, r.Thorough(), rng.Intn)
	for _, n := range counts {
		for _, variant := range []string{"distinct", "dupes", "all-same"} {
			if variant == "all-same" && n%3 != 0 && !r.Thorough() {
				continue
			}
			dc := dirCase{CaseID: fmt.Sprintf("d%d-%d-%s;", m, n, variant), M: m, Count: n, Variant: variant}
			if !r.Only(dc.CaseID) {
				continue
			}
			r.Guard("directory", dc, func() { runDir(r, dc) })
		}
	}
	// members that are stored entries, listed through Readdir: around every branch
	m2 := m * m
	ecounts := []int{0, 1, m, m + 1, 2*m + 1, m2 - 1, m2, m2 + 1, m2 + m, m2*m + 1}
	if r.Thorough() {
		for n := 0; n <= m2*m+m2+2; n += 1 + rng.Intn(4) {
			ecounts = append(ecounts, n)
		}
	}
	seen := map[int]bool{}
	for _, n := range ecounts {
		if seen[n] {
			continue
		}
		seen[n] = true
		dc := dirCase{CaseID: fmt.Sprintf("d%d-%d-entries;", m, n), M: m, Count: n, Variant: "entries"}
		if !r.Only(dc.CaseID) {
			continue
		}
		r.Guard("directory", dc, func() { runDir(r, dc) })
	}
	r.Note("dir_threshold", fmt.Sprintf("m=%d", m))
}

// entryWant is what the harness stored as one member of an "entries" directory.
type entryWant struct {
	name string
	typ  string
}

func memberHash(dc dirCase, rng interface{ Intn(int) int }) string {
	switch dc.Hash {
	case "":
		return "sha224"
	case "mixed":
		return []string{"sha1", "sha224", "sha256"}[rng.Intn(3)]
	}
	return dc.Hash
}

// buildEntries stores Count small file / directory / symlink schema blobs (and what
// they reference) and returns their refs with the names and types to expect.
func buildEntries(dc dirCase, rng interface{ Intn(int) int }, put func(*schema.Blob) bool, putRaw func([]byte) (blob.Ref, bool)) ([]blob.Ref, []entryWant, bool) {
	members := make([]blob.Ref, dc.Count)
	ents := make([]entryWant, dc.Count)
	var datas []blob.Ref
	for i := 0; i < 5; i++ {
		br, ok := putRaw([]byte(fmt.Sprintf("c15 entry data %s %d %s", dc.CaseID, i, strings.Repeat("x", i*7))))
		if !ok {
			return nil, nil, false
		}
		datas = append(datas, br)
	}
	empty := schema.NewStaticSet()
	empty.SetStaticSetMembers(nil)
	emptySet := empty.Blob()
	if !put(emptySet) {
		return nil, nil, false
	}
	for i := range members {
		name := fmt.Sprintf("e%06d-%04x", i, rng.Intn(1<<16))
		if rng.Intn(7) == 0 {
			name += " ünï.txt"
		}
		var bb *schema.Builder
		typ := "file"
		switch k := rng.Intn(20); {
		case k == 0:
			typ = "directory"
			bb = schema.NewDirMap(name).PopulateDirectoryMap(emptySet.BlobRef())
		case k == 1:
			typ = "symlink"
			bb = schema.NewFileMap(name).SetSymlinkTarget(fmt.Sprintf("../target-%d", i))
		case k < 5:
			bb = schema.NewFileMap(name)
			if err := bb.PopulateParts(0, nil); err != nil {
				return nil, nil, false
			}
		default:
			d := rng.Intn(len(datas))
			size := int64(len(fmt.Sprintf("c15 entry data %s %d %s", dc.CaseID, d, strings.Repeat("x", d*7))))
			bb = schema.NewFileMap(name)
			if err := bb.PopulateParts(size, []schema.BytesPart{{Size: uint64(size), BlobRef: datas[d]}}); err != nil {
				return nil, nil, false
			}
		}
		b := bb.Blob()
		if !put(b) {
			return nil, nil, false
		}
		members[i] = b.BlobRef()
		ents[i] = entryWant{name: name, typ: typ}
	}
	return members, ents, true
}

func runDir(r *ev.Run, dc dirCase) {
	rng := r.Rand("dir/" + dc.CaseID)
	ctx := context.Background()
	st := &memory.Storage{}
	put := func(b *schema.Blob) bool {
		if _, err := st.ReceiveBlob(ctx, b.BlobRef(), strings.NewReader(b.JSON())); err != nil {
			r.Inconclusive("memory store refused a blob: " + err.Error())
			return false
		}
		return true
	}
	putRaw := func(data []byte) (blob.Ref, bool) {
		br := sto.RefOf("sha224", data)
		if _, err := st.ReceiveBlob(ctx, br, strings.NewReader(string(data))); err != nil {
			r.Inconclusive("memory store refused a blob: " + err.Error())
			return br, false
		}
		return br, true
	}

	members := make([]blob.Ref, dc.Count)
	var ents []entryWant
	if dc.Variant == "entries" {
		var ok bool
		members, ents, ok = buildEntries(dc, rng, put, putRaw)
		if !ok {
			r.Inconclusive("could not prepare the member entries of " + dc.CaseID)
			return
		}
	} else {
		npool := dc.M + 2
		if dc.M == 0 {
			npool = 40
		}
		pool := make([]blob.Ref, 1+rng.Intn(npool))
		for i := range pool {
			pool[i] = sto.RefOf(memberHash(dc, rng), []byte(fmt.Sprintf("c15 pool member %s %d", dc.CaseID, i)))
		}
		for i := range members {
			switch dc.Variant {
			case "distinct":
				members[i] = sto.RefOf(memberHash(dc, rng), []byte(fmt.Sprintf("c15 member %s %d", dc.CaseID, i)))
			case "dupes":
				members[i] = pool[rng.Intn(len(pool))]
			case "all-same":
				members[i] = pool[0]
			}
		}
	}
	hashLabel := dc.Hash
	if hashLabel == "" {
		hashLabel = "sha224"
	}

	viol := func(sig, format string, a ...any) {
		r.Violation(sig, fmt.Sprintf("directory of %d members (%s, %s refs), %s: ", dc.Count, dc.Variant, hashLabel, dc.thrText())+fmt.Sprintf(format, a...), dc)
	}

	// build the static-set blobs; the builder must not panic for any member list
	var subs []*schema.Blob
	var top *schema.Blob
	var panicMsg string
	func() {
		defer func() {
			if e := recover(); e != nil {
				panicMsg = fmt.Sprintf("panic: %v\n%s", e, ev.PerkeepFrames(string(debug.Stack())))
			}
		}()
		ss := schema.NewStaticSet()
		subs = ss.SetStaticSetMembers(append([]blob.Ref(nil), members...))
		top = ss.Blob()
	}()
	r.Eval(1)
	if panicMsg != "" {
		viol("staticset-build-panic/"+dc.thr(), "building the static-set blobs (SetStaticSetMembers + Blob): %s", panicMsg)
		return
	}

	// every static-set blob written is a schema blob: within the schema blob size limit,
	// parseable by perkeep's schema parser and by the harness's, of type static-set,
	// with members or mergeSets but not both (doc/schema/static-set.md)
	all := append(append([]*schema.Blob(nil), subs...), top)
	maxBytes := 0
	var badSize, badParse bool
	for _, b := range all {
		js := b.JSON()
		if len(js) > maxBytes {
			maxBytes = len(js)
		}
		r.Eval(1)
		if len(js) > schema.MaxSchemaBlobSize && !badSize {
			badSize = true
			var own jset
			json.Unmarshal([]byte(js), &own)
			viol("staticset-blob-too-large/"+dc.thr(), "the writer produced a static-set blob of %d bytes (%d members, %d mergeSets); the schema blob size limit (schema.MaxSchemaBlobSize) is %d bytes, no reader accepts it",
				len(js), len(own.Members), len(own.MergeSets), schema.MaxSchemaBlobSize)
		}
		if badParse {
			continue
		}
		var own jset
		if err := json.Unmarshal([]byte(js), &own); err != nil || own.Type != "static-set" || (len(own.Members) > 0 && len(own.MergeSets) > 0) {
			badParse = true
			viol("staticset-blob-invalid/"+dc.thr(), "static-set blob %s is not a well-formed static-set (json error %v, camliType %q, %d members and %d mergeSets)", b.BlobRef(), err, own.Type, len(own.Members), len(own.MergeSets))
			continue
		}
		if len(js) <= schema.MaxSchemaBlobSize {
			if _, err := schema.BlobFromReader(b.BlobRef(), strings.NewReader(js)); err != nil {
				badParse = true
				viol("staticset-blob-invalid/"+dc.thr(), "perkeep's schema parser rejects static-set blob %s (%d bytes) that its own writer produced: %v", b.BlobRef(), len(js), err)
			}
		}
	}
	for _, b := range all {
		if !put(b) {
			return
		}
	}
	dir := schema.NewDirMap("c15-dir").PopulateDirectoryMap(top.BlobRef()).Blob()
	if !put(dir) {
		return
	}

	// observed splitting
	depth, rest, maxEntries, ok := setShape(func(ref string) (string, bool) {
		br, ok := blob.Parse(ref)
		if !ok {
			return "", false
		}
		return st.BlobContents(br)
	}, top.BlobRef().String())
	branch := "unreadable"
	if ok {
		switch {
		case depth == 1:
			branch = "single"
		case depth == 2:
			branch = "split-flat"
		default:
			branch = "split-recursive"
		}
		if depth > 1 {
			if rest {
				branch += "/rest"
			} else {
				branch += "/exact"
			}
		}
	}
	if dc.M == 0 {
		r.Note("dir_threshold", "production")
		r.Note("dir_production", branch)
		r.Note("dir_production", hashLabel+"-refs")
		r.Note("dir_production", dc.Variant)
		if depth > 1 {
			r.Note("dir_production", "split")
		}
		r.Note("dir_production_case", fmt.Sprintf("%d/%s/%s:%s,blobs=%d,largest=%dB,max-entries=%d", dc.Count, hashLabel, dc.Variant, branch, len(all), maxBytes, maxEntries))
		r.Count("dir_production_directories", 1)
		noteMax(r, "dir_production_largest_static_set_blob_bytes", maxBytes)
		noteMax(r, "dir_production_largest_entry_list", maxEntries)
	} else {
		r.Note("dir_branch", branch)
		r.Note("dir_variant", dc.Variant)
		r.Note("dir_set_depth", fmt.Sprint(depth))
		if maxEntries > dc.M {
			r.Count("dir_blobs_with_more_than_m_entries", 1)
		}
	}
	r.Count("directories", 1)
	r.Count("dir_members", dc.Count)
	r.Count("dir_static_set_blobs", len(all))
	if depth > 1 {
		if dc.M == 0 {
			r.Distinct(fmt.Sprintf("dir/production/%d/%s/%s", dc.Count, dc.Variant, hashLabel))
		} else {
			r.Distinct(fmt.Sprintf("dir/%d/%d/%s", dc.M, dc.Count, dc.Variant))
		}
	}
	vpre := viol
	viol = func(sig, format string, a ...any) {
		vpre(sig, fmt.Sprintf("%d static-set blobs (largest %d bytes), nesting %d: ", len(all), maxBytes, depth)+format, a...)
	}

	dr, err := schema.NewDirReader(ctx, st, dir.BlobRef())
	r.Eval(1)
	if err != nil {
		viol("staticset-error/"+branch, "NewDirReader: %v", err)
		return
	}
	got, err := dr.StaticSet(ctx)
	r.Eval(1)
	if err != nil {
		viol("staticset-error/"+branch, "StaticSet: %v", err)
		return
	}
	if !sameMembers(got, members, func(sig, format string, a ...any) { viol(sig+"/"+branch, "StaticSet: "+format, a...) }) {
		return
	}
	if ents != nil {
		if !checkReaddir(r, dc, st, dir.BlobRef(), members, ents, branch, viol) {
			return
		}
	}
	// the same directory read through a fetcher that fails once (dirfaults.go)
	checkDirAfterFault(r, dc, st, dir.BlobRef(), members, ents, branch, viol)
	if dc.M > 0 && dc.Count > dc.M && atomic.AddInt32(&dirSamples, 1) == 1 {
		r.Sample(map[string]any{"kind": "directory", "case": dc, "branch": branch, "static_set_blobs": len(all)})
	}
	if dc.M == 0 && depth > 1 && atomic.AddInt32(&prodDirSamples, 1) == 1 {
		r.Sample(map[string]any{"kind": "directory at the production threshold", "case": dc, "branch": branch, "static_set_blobs": len(all), "largest_static_set_blob_bytes": maxBytes, "largest_entry_list": maxEntries})
	}
}

// sameMembers reports (through viol, signature "staticset" or "staticset-order") when
// got is not exactly want, in order.
func sameMembers(got, want []blob.Ref, viol func(sig, format string, a ...any)) bool {
	if len(got) != len(want) {
		viol("staticset", "returned %d members, the directory was built from %d", len(got), len(want))
		return false
	}
	for i := range got {
		if got[i] != want[i] {
			// multiset equal but order different?
			a := make([]string, len(got))
			b := make([]string, len(got))
			for k := range got {
				a[k], b[k] = got[k].String(), want[k].String()
			}
			sort.Strings(a)
			sort.Strings(b)
			same := true
			for k := range a {
				if a[k] != b[k] {
					same = false
				}
			}
			if same {
				viol("staticset-order", "same members in a different order; first difference at index %d", i)
			} else {
				viol("staticset", "member %d is %s, want %s (different multiset)", i, got[i], want[i])
			}
			return false
		}
	}
	return true
}

// checkReaddir lists a directory whose members are stored entries through
// DirReader.Readdir: all at once (n<=0) on fresh readers, and the first page (n>0) of a
// fresh reader.  What further pages return is recorded, not judged: no code in perkeep
// pages through a DirReader, and the property speaks of the listing.
func checkReaddir(r *ev.Run, dc dirCase, st *memory.Storage, dirRef blob.Ref, members []blob.Ref, ents []entryWant, branch string, viol func(sig, format string, a ...any)) bool {
	ctx := context.Background()
	compare := func(call string, got []schema.DirectoryEntry, from, to int) bool {
		if len(got) != to-from {
			viol("readdir/"+branch, "%s returned %d entries, want members [%d,%d) of %d", call, len(got), from, to, len(members))
			return false
		}
		for i, e := range got {
			w := ents[from+i]
			if e == nil || e.BlobRef() != members[from+i] || e.FileName() != w.name || string(e.CamliType()) != w.typ {
				desc := "nil"
				if e != nil {
					desc = fmt.Sprintf("%s %q %s", e.CamliType(), e.FileName(), e.BlobRef())
				}
				viol("readdir/"+branch, "%s: entry %d is %s, want %s %q %s", call, i, desc, w.typ, w.name, members[from+i])
				return false
			}
		}
		return true
	}
	for _, n := range []int{-1, 0} {
		dr, err := schema.NewDirReader(ctx, st, dirRef)
		if err != nil {
			viol("staticset-error/"+branch, "NewDirReader: %v", err)
			return false
		}
		got, err := dr.Readdir(ctx, n)
		r.Eval(1)
		r.Count("dir_readdir_calls", 1)
		if err != nil {
			viol("readdir-error/"+branch, "Readdir(%d): %v", n, err)
			return false
		}
		if !compare(fmt.Sprintf("Readdir(%d)", n), got, 0, len(members)) {
			return false
		}
		if n == -1 {
			// a second full listing from the same reader
			got, err = dr.Readdir(ctx, -1)
			r.Eval(1)
			if err != nil {
				viol("readdir-error/"+branch, "second Readdir(-1): %v", err)
				return false
			}
			if !compare("second Readdir(-1) of one reader", got, 0, len(members)) {
				return false
			}
		}
	}
	r.Note("dir_readdir", "all@"+dc.thr())
	if dc.M == 0 {
		r.Note("dir_production", "readdir")
	}
	if len(members) == 0 {
		return true
	}
	// first page of a fresh reader; pages cross the subset boundaries for small n
	rng := r.Rand("readdir/" + dc.CaseID)
	step := 1 + rng.Intn(len(members)+2)
	if dc.M > 0 && rng.Intn(2) == 0 {
		step = 1 + rng.Intn(dc.M+1)
	}
	dr, err := schema.NewDirReader(ctx, st, dirRef)
	if err != nil {
		viol("staticset-error/"+branch, "NewDirReader: %v", err)
		return false
	}
	got, err := dr.Readdir(ctx, step)
	r.Eval(1)
	r.Count("dir_readdir_calls", 1)
	if err != nil && !(errors.Is(err, io.EOF) && len(got) > 0) {
		viol("readdir-error/"+branch, "first Readdir(%d) of a fresh reader: %v", step, err)
		return false
	}
	if !compare(fmt.Sprintf("first Readdir(%d) of a fresh reader", step), got, 0, min(step, len(members))) {
		return false
	}
	r.Note("dir_readdir", "first-page@"+dc.thr())
	// second page: observation only
	if step < len(members) {
		got2, err2 := dr.Readdir(ctx, step)
		switch {
		case err2 != nil:
			r.Note("dir_readdir_second_page(not judged)", "error")
		case len(got2) > 0 && got2[0] != nil && got2[0].BlobRef() == members[step]:
			r.Note("dir_readdir_second_page(not judged)", "continues-after-first-page")
		case len(got2) > 0 && got2[0] != nil && got2[0].BlobRef() == members[0] && members[0] != members[step]:
			r.Note("dir_readdir_second_page(not judged)", "repeats-first-page")
		default:
			r.Note("dir_readdir_second_page(not judged)", "other")
		}
	}
	return true
}

var maxSeen sync.Map // name -> *int64

func noteMax(r *ev.Run, name string, v int) {
	p, _ := maxSeen.LoadOrStore(name, new(int64))
	cur := p.(*int64)
	for {
		old := atomic.LoadInt64(cur)
		if int64(v) <= old {
			return
		}
		if atomic.CompareAndSwapInt64(cur, old, int64(v)) {
			r.Extra(name, v)
			return
		}
	}
}

var dirSamples, prodDirSamples, fileSamples int32
