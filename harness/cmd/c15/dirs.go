package main

import (
	"context"
	"encoding/json"
	"fmt"
	"sort"
	"strings"
	"sync/atomic"

	"perkeep.org/pkg/blob"
	"perkeep.org/pkg/blobserver/memory"
	"perkeep.org/pkg/schema"

	"verif.local/harness/ev"
	"verif.local/harness/sto"
)

type dirCase struct {
	CaseID  string `json:"case_id"`
	M       int    `json:"max_static_set_members"`
	Count   int    `json:"members"`
	Variant string `json:"variant"`
}

type jset struct {
	Type      string   `json:"camliType"`
	Members   []string `json:"members"`
	MergeSets []string `json:"mergeSets"`
}

// setShape reads the uploaded static-set blobs with the harness's own parser and
// reports how the set was split: nesting depth, whether the last top-level subset is
// smaller than the first, and the largest entry list of any blob.
func setShape(get func(string) (string, bool), top string) (depth int, rest bool, maxEntries int, ok bool) {
	var leaves func(ref string, d int) (int, bool)
	leaves = func(ref string, d int) (int, bool) {
		if d > depth {
			depth = d
		}
		if d > 32 {
			return 0, false
		}
		s, found := get(ref)
		if !found {
			return 0, false
		}
		var js jset
		if json.Unmarshal([]byte(s), &js) != nil || js.Type != "static-set" {
			return 0, false
		}
		if n := len(js.Members); n > maxEntries {
			maxEntries = n
		}
		if n := len(js.MergeSets); n > maxEntries {
			maxEntries = n
		}
		if len(js.MergeSets) == 0 {
			return len(js.Members), true
		}
		total := 0
		var first, last int
		for i, sub := range js.MergeSets {
			n, ok := leaves(sub, d+1)
			if !ok {
				return 0, false
			}
			if i == 0 {
				first = n
			}
			last = n
			total += n
		}
		if d == 1 && last < first {
			rest = true
		}
		return total, true
	}
	_, ok = leaves(top, 1)
	return
}

func dirCounts(m int, thorough bool, rngInts func(n int) int) []int {
	set := map[int]bool{}
	add := func(ns ...int) {
		for _, n := range ns {
			if n >= 0 {
				set[n] = true
			}
		}
	}
	m2, m3 := m*m, m*m*m
	add(0, 1, 2, m-1, m, m+1, 2*m-1, 2*m, 2*m+1, 3*m)
	add(m2-m-1, m2-m, m2-m+1, m2-2, m2-1, m2, m2+1, m2+2, m2+m-2, m2+m-1, m2+m, m2+m+1)
	add((m-1)*(m+1), (m-1)*(m+2), (m-1)*(m+2)+1, (m-1)*2*m, (m-1)*2*m+1)
	add(m3-m2-1, m3-m2, m3-m2+1, m3-m, m3-1, m3, m3+1, m3+m-1, m3+m, m3+m2, m3+m2+1)
	add((m-1)*m2-1, (m-1)*m2, (m-1)*m2+1)
	if m <= 4 {
		m4 := m3 * m
		add(m4-1, m4, m4+1, (m-1)*m3, (m-1)*m3+1, m4+m3+m2+m+1)
	}
	if thorough {
		for n := 0; n <= m3+m2+m+2; n++ {
			add(n)
		}
		if m == 7 {
			add(6*343-1, 6*343, 6*343+1, 2400, 2401, 2402)
		}
		if m <= 4 {
			for n := m3 * m; n <= m3*m+m3; n += 1 + rngInts(3) {
				add(n)
			}
		}
	} else {
		for i := 0; i < 10; i++ {
			add(rngInts(m3 + m2))
		}
	}
	var out []int
	for n := range set {
		out = append(out, n)
	}
	sort.Ints(out)
	return out
}

func runDirs(r *ev.Run) {
	for _, m := range []int{3, 4, 7} {
		runDirsM(r, m)
	}
}

func runDirsM(r *ev.Run, m int) {
	old := schema.VerifSetMaxStaticSetMembers(m)
	defer schema.VerifSetMaxStaticSetMembers(old)
	if old <= 7 {
		r.Inconclusive(fmt.Sprintf("static-set threshold was already %d before the check set it", old))
	}
	rng := r.Rand(fmt.Sprintf("dirs/%d", m))
	counts := dirCounts(m, r.Thorough(), rng.Intn)
	for _, n := range counts {
		for _, variant := range []string{"distinct", "dupes", "all-same"} {
			if variant == "all-same" && n%3 != 0 && !r.Thorough() {
				continue
			}
			dc := dirCase{CaseID: fmt.Sprintf("d%d-%d-%s;", m, n, variant), M: m, Count: n, Variant: variant}
			if !r.Only(dc.CaseID) {
				continue
			}
			r.Guard("directory", dc, func() { runDir(r, dc) })
		}
	}
	r.Note("dir_threshold", fmt.Sprintf("m=%d", m))
}

func runDir(r *ev.Run, dc dirCase) {
	rng := r.Rand("dir/" + dc.CaseID)
	members := make([]blob.Ref, dc.Count)
	pool := make([]blob.Ref, 1+rng.Intn(dc.M+2))
	for i := range pool {
		pool[i] = sto.RefOf("sha224", []byte(fmt.Sprintf("c15 pool member %s %d", dc.CaseID, i)))
	}
	for i := range members {
		switch dc.Variant {
		case "distinct":
			members[i] = sto.RefOf("sha224", []byte(fmt.Sprintf("c15 member %s %d", dc.CaseID, i)))
		case "dupes":
			members[i] = pool[rng.Intn(len(pool))]
		case "all-same":
			members[i] = pool[0]
		}
	}
	ctx := context.Background()
	st := &memory.Storage{}
	put := func(b *schema.Blob) bool {
		if _, err := st.ReceiveBlob(ctx, b.BlobRef(), strings.NewReader(b.JSON())); err != nil {
			r.Inconclusive("memory store refused a blob: " + err.Error())
			return false
		}
		return true
	}
	ss := schema.NewStaticSet()
	subs := ss.SetStaticSetMembers(append([]blob.Ref(nil), members...))
	top := ss.Blob()
	for _, b := range subs {
		if !put(b) {
			return
		}
	}
	if !put(top) {
		return
	}
	dir := schema.NewDirMap("c15-dir").PopulateDirectoryMap(top.BlobRef()).Blob()
	if !put(dir) {
		return
	}

	// observed splitting
	depth, rest, maxEntries, ok := setShape(func(ref string) (string, bool) {
		br, ok := blob.Parse(ref)
		if !ok {
			return "", false
		}
		return st.BlobContents(br)
	}, top.BlobRef().String())
	branch := "unreadable"
	if ok {
		switch {
		case depth == 1:
			branch = "single"
		case depth == 2:
			branch = "split-flat"
		default:
			branch = "split-recursive"
		}
		if depth > 1 {
			if rest {
				branch += "/rest"
			} else {
				branch += "/exact"
			}
		}
	}
	r.Note("dir_branch", branch)
	r.Note("dir_variant", dc.Variant)
	r.Note("dir_set_depth", fmt.Sprint(depth))
	if maxEntries > dc.M {
		r.Count("dir_blobs_with_more_than_m_entries", 1)
	}
	r.Count("directories", 1)
	r.Count("dir_members", dc.Count)
	r.Count("dir_static_set_blobs", len(subs)+1)
	if depth > 1 {
		r.Distinct(fmt.Sprintf("dir/%d/%d/%s", dc.M, dc.Count, dc.Variant))
	}
	viol := func(sig, format string, a ...any) {
		r.Violation(sig, fmt.Sprintf("directory of %d members (%s), static-set threshold %d, %d static-set blobs, nesting %d: ", dc.Count, dc.Variant, dc.M, len(subs)+1, depth)+fmt.Sprintf(format, a...), dc)
	}

	dr, err := schema.NewDirReader(ctx, st, dir.BlobRef())
	r.Eval(1)
	if err != nil {
		viol("staticset-error/"+branch, "NewDirReader: %v", err)
		return
	}
	got, err := dr.StaticSet(ctx)
	r.Eval(1)
	if err != nil {
		viol("staticset-error/"+branch, "StaticSet: %v", err)
		return
	}
	if len(got) != len(members) {
		viol("staticset/"+branch, "StaticSet returned %d members, the directory was built from %d", len(got), len(members))
		return
	}
	for i := range got {
		if got[i] != members[i] {
			// multiset equal but order different?
			a := make([]string, len(got))
			b := make([]string, len(got))
			for k := range got {
				a[k], b[k] = got[k].String(), members[k].String()
			}
			sort.Strings(a)
			sort.Strings(b)
			same := true
			for k := range a {
				if a[k] != b[k] {
					same = false
				}
			}
			if same {
				viol("staticset-order/"+branch, "same members in a different order; first difference at index %d", i)
			} else {
				viol("staticset/"+branch, "member %d is %s, want %s (different multiset)", i, got[i], members[i])
			}
			return
		}
	}
	if dc.Count > dc.M && atomic.AddInt32(&dirSamples, 1) == 1 {
		r.Sample(map[string]any{"kind": "directory", "case": dc, "branch": branch, "static_set_blobs": len(subs) + 1})
	}
}

var dirSamples, fileSamples int32
