package main

// Part 2f: parallel ReadAt calls on ONE FileReader (io.ReaderAt allows them).
//
// Directed valid trees whose root has 16-64 DISTINCT nested bytes blobs as bytesRef parts
// (depth 2 and 3).  Per round a fresh FileReader (cold cache of parsed nested blobs) is
// shared by G goroutines that are released together; at step k goroutine g reads a seeded
// window inside part perm[k*G+g], so that the G goroutines land on G different bytesRef
// parts none of which was resolved before.  The fetcher holds the G fetches of those nested
// schema blobs back until all G have arrived (bounded wait; it only shapes the schedule), so
// the G resolutions complete side by side.  After the cold steps the goroutines read windows
// that cross part boundaries and the whole file (warm cache).  Every read is compared with
// the bytes the tree denotes.
//
// A regression here typically ends in a Go runtime fatal error (concurrent map access),
// which recover() cannot see: the family runs in a child process (this binary, with
// VERIF_C15_CHILD=parallel).  A child that died with such a fatal error (or a panic) whose
// crashing goroutine shows perkeep.org/pkg/schema frames is a violation; any other child
// failure (timeout, unrelated death) is inconclusive.

import (
	"bufio"
	"bytes"
	"context"
	"encoding/json"
	"errors"
	"fmt"
	"hash/fnv"
	"io"
	"math/rand"
	"os"
	"os/exec"
	"regexp"
	"runtime"
	"runtime/debug"
	"strconv"
	"strings"
	"sync"
	"sync/atomic"
	"syscall"
	"time"

	"perkeep.org/pkg/blob"
	"perkeep.org/pkg/blobserver/memory"
	"perkeep.org/pkg/schema"

	"verif.local/harness/ev"
	"verif.local/harness/sto"
)

const (
	parG          = 8 // goroutines sharing one FileReader
	parChildEnv   = "VERIF_C15_CHILD"
	parChildLimit = 180 * time.Second
)

func parTrees(thorough bool) int {
	if thorough {
		return 24
	}
	return 6
}

func parRounds(thorough bool) int {
	if thorough {
		return 40
	}
	return 24
}

func parRand(seed int64, label string) *rand.Rand {
	h := fnv.New64a()
	fmt.Fprintf(h, "%d/C15/parallel/%s", seed, label)
	return rand.New(rand.NewSource(int64(h.Sum64())))
}

// ---------------------------------------------------------------- tree

type parTree struct {
	root   *tnode
	level2 map[blob.Ref]bool // the root's nested bytes blobs
	schema map[blob.Ref]bool // every nested bytes blob
	starts []int             // start offset of root part i
}

func parBlob(rng *rand.Rand, tag int) *dblob {
	n := 8 + rng.Intn(120)
	data := make([]byte, n)
	rng.Read(data)
	// unique content: distinct blobs, hence distinct nested schema blobs
	copy(data, fmt.Sprintf("%06d:", tag))
	return &dblob{data: data, ref: sto.RefOf("sha224", data)}
}

func parNode(rng *rand.Rand, tag *int, depth int) *tnode {
	n := &tnode{typ: "bytes"}
	np := 1 + rng.Intn(3)
	for i := 0; i < np; i++ {
		*tag++
		if depth > 1 && (i == np/2) {
			c := parNode(rng, tag, depth-1)
			off, size := 0, len(c.den)
			if size > 4 && rng.Intn(2) == 0 {
				off = rng.Intn(size / 2)
				size = 1 + rng.Intn(size-off)
			}
			n.parts = append(n.parts, tpart{kind: kBytes, child: c, off: off, size: size})
			continue
		}
		b := parBlob(rng, *tag)
		off, size := 0, len(b.data)
		if rng.Intn(4) == 0 {
			off = rng.Intn(size / 2)
			size = 1 + rng.Intn(size-off)
		}
		n.parts = append(n.parts, tpart{kind: kBlob, b: b, off: off, size: size})
	}
	n.finish(false)
	return n
}

func genParTree(seed int64, idx int) *parTree {
	rng := parRand(seed, fmt.Sprintf("tree/%d", idx))
	nparts := []int{16, 24, 32, 48, 64}[idx%5]
	depth := 2 + idx%2
	typ := "file"
	if idx%3 == 2 {
		typ = "bytes"
	}
	t := &parTree{level2: map[blob.Ref]bool{}, schema: map[blob.Ref]bool{}}
	root := &tnode{typ: typ}
	tag := idx * 100000
	pos := 0
	for i := 0; i < nparts; i++ {
		d := 1
		if depth == 3 && i%2 == 0 {
			d = 2
		}
		c := parNode(rng, &tag, d)
		off, size := 0, len(c.den)
		if rng.Intn(4) == 0 && size > 4 {
			off = rng.Intn(size / 2)
			size = 1 + rng.Intn(size-off)
		}
		root.parts = append(root.parts, tpart{kind: kBytes, child: c, off: off, size: size})
		t.level2[c.ref] = true
		t.starts = append(t.starts, pos)
		pos += size
	}
	root.finish(false)
	t.root = root
	return t
}

// ---------------------------------------------------------------- fetcher

// rendezFetcher counts the fetches of nested schema blobs (each is a miss of the reader's
// cache of parsed nested blobs) and holds the fetches of the root's nested blobs back until
// parG of them are waiting.
type rendezFetcher struct {
	inner  blob.Fetcher
	level2 map[blob.Ref]bool
	schema map[blob.Ref]bool

	arrived  atomic.Int64
	gaveUp   atomic.Bool
	mu       sync.Mutex
	arrivals []blob.Ref
	passed   []bool
	fetched  map[blob.Ref]int
}

func (f *rendezFetcher) Fetch(ctx context.Context, br blob.Ref) (io.ReadCloser, uint32, error) {
	if f.schema[br] {
		f.mu.Lock()
		f.fetched[br]++
		f.mu.Unlock()
	}
	if f.level2[br] && !f.gaveUp.Load() {
		f.mu.Lock()
		f.arrivals = append(f.arrivals, br)
		f.passed = append(f.passed, false)
		n := len(f.arrivals)
		f.mu.Unlock()
		f.arrived.Add(1)
		target := int64((n-1)/parG+1) * parG
		deadline := time.Now().Add(2 * time.Second)
		ok := true
		for spins := 1; f.arrived.Load() < target; spins++ {
			if spins%64 == 0 {
				runtime.Gosched()
				if f.gaveUp.Load() || time.Now().After(deadline) {
					f.gaveUp.Store(true) // schedule shaping only: go on without the rendez-vous
					ok = false
					break
				}
			}
		}
		if ok {
			f.mu.Lock()
			f.passed[n-1] = true
			f.mu.Unlock()
		}
	}
	return f.inner.Fetch(ctx, br)
}

// groups returns the number of rendez-vous at which parG fetches of parG distinct nested
// blobs were in flight together, and the distinct blobs in them.
func (f *rendezFetcher) groups() (full int, refs map[blob.Ref]bool) {
	refs = map[blob.Ref]bool{}
	for i := 0; i+parG <= len(f.arrivals); i += parG {
		seen := map[blob.Ref]bool{}
		ok := true
		for k := i; k < i+parG; k++ {
			if !f.passed[k] || seen[f.arrivals[k]] {
				ok = false
			}
			seen[f.arrivals[k]] = true
		}
		if ok {
			full++
			for r := range seen {
				refs[r] = true
			}
		}
	}
	return
}

// ---------------------------------------------------------------- child

type parViol struct {
	Sig  string `json:"sig"`
	What string `json:"what"`
	Op   string `json:"op"`
}

type parStat struct {
	Tree         int    `json:"tree"`
	Root         string `json:"root"`
	RootType     string `json:"root_type"`
	Depth        int    `json:"depth"`
	Parts        int    `json:"parts"`
	Rounds       int    `json:"rounds"`
	Reads        int    `json:"reads"`
	ColdFetches  int    `json:"cold_fetches"`
	Rendezvous   int    `json:"rendezvous"`
	ColdTogether int    `json:"cold_together"`
	GaveUp       int    `json:"gave_up"`
}

func parEmit(tag string, v any) {
	b, _ := json.Marshal(v)
	parOut.Lock()
	fmt.Printf("@@%s %s\n", tag, b)
	parOut.Unlock()
}

var parOut sync.Mutex

func parallelChild() {
	seed := int64(1)
	if v, err := strconv.ParseInt(os.Getenv("VERIF_SEED"), 10, 64); err == nil {
		seed = v
	}
	thorough := os.Getenv("VERIF_TIER") == "thorough"
	ctx := context.Background()
	for idx := 0; idx < parTrees(thorough); idx++ {
		t := genParTree(seed, idx)
		schemaBlobs := map[string]*tnode{}
		dataBlobs := map[string]*dblob{}
		collect(t.root, schemaBlobs, dataBlobs)
		st := &memory.Storage{}
		tc := treeCase{CaseID: fmt.Sprintf("p%d;", idx), Root: t.root.ref.String(), Schema: map[string]string{}, Data: map[string]string{}}
		for ref, n := range schemaBlobs {
			tc.Schema[ref] = n.js
			if n != t.root {
				t.schema[n.ref] = true
			}
			if _, err := st.ReceiveBlob(ctx, n.ref, strings.NewReader(n.js)); err != nil {
				parEmit("INCONCL", "memory store refused a schema blob: "+err.Error())
				return
			}
		}
		for ref, b := range dataBlobs {
			tc.Data[ref] = hexs(b.data)
			if _, err := st.ReceiveBlob(ctx, b.ref, bytes.NewReader(b.data)); err != nil {
				parEmit("INCONCL", "memory store refused a data blob: "+err.Error())
				return
			}
		}
		want := t.root.den
		in := &interp{get: func(ref string) ([]byte, bool) {
			if n, ok := schemaBlobs[ref]; ok {
				return []byte(n.js), true
			}
			if b, ok := dataBlobs[ref]; ok {
				return b.data, true
			}
			return nil, false
		}}
		den := in.denote(t.root.ref.String(), "file", 1)
		if len(in.problems) > 0 || !bytes.Equal(den, want) || len(t.level2) != len(t.root.parts) {
			parEmit("INCONCL", fmt.Sprintf("harness bug: parallel-read tree %d is not well-formed, generator and interpreter disagree, or nested blobs are not distinct: %v", idx, in.problems))
			return
		}
		parEmit("CASE", tc)

		stat := parStat{Tree: idx, Root: t.root.ref.String(), RootType: t.root.typ, Depth: t.root.depth, Parts: len(t.root.parts), Rounds: parRounds(thorough)}
		together := map[blob.Ref]bool{}
		var reads atomic.Int64
		var nviol atomic.Int64
		for round := 0; round < stat.Rounds; round++ {
			rrng := parRand(seed, fmt.Sprintf("round/%d/%d", idx, round))
			perm := rrng.Perm(len(t.root.parts))
			ff := &rendezFetcher{inner: st, level2: t.level2, schema: t.schema, fetched: map[blob.Ref]int{}}
			fr, err := schema.NewFileReader(ctx, ff, t.root.ref)
			if err != nil {
				parEmit("VIOL", parViol{"parallel-read/open/error", fmt.Sprintf("NewFileReader of a valid tree failed: %v", err), "open"})
				break
			}
			if fr.Size() != int64(len(want)) {
				parEmit("VIOL", parViol{"parallel-read/size", fmt.Sprintf("Size() = %d, the tree denotes %d bytes", fr.Size(), len(want)), "size"})
			}
			seeds := make([]int64, parG)
			for g := range seeds {
				seeds[g] = rrng.Int63()
			}
			start := make(chan struct{})
			var wg sync.WaitGroup
			for g := 0; g < parG; g++ {
				wg.Add(1)
				go func(g int) {
					defer wg.Done()
					defer func() {
						if e := recover(); e != nil {
							stk := string(debug.Stack())
							nviol.Add(1)
							parEmit("VIOL", parViol{"parallel-read/panic/" + parFunc(stk), fmt.Sprintf("goroutine %d of %d reading one FileReader in parallel panicked: %v\n%s", g, parG, e, ev.PerkeepFrames(stk)), "readat"})
						}
					}()
					grng := rand.New(rand.NewSource(seeds[g]))
					check := func(phase string, off, n int) {
						buf := dirtyBuf(n, g+1)
						got, err := fr.ReadAt(buf, int64(off))
						reads.Add(1)
						exp := want[off:min(off+n, len(want))]
						okErr := (err == nil && got == n) || (err != nil && (got < n || off+got == len(want)) && (errors.Is(err, io.EOF) || errors.Is(err, io.ErrUnexpectedEOF))) || (got != len(exp)) // the last: reported as wrong bytes below
						if nviol.Load() >= 6 {
							return
						}
						if !okErr {
							nviol.Add(1)
							parEmit("VIOL", parViol{"parallel-read/readat/error", fmt.Sprintf("round %d, goroutine %d of %d sharing one fresh FileReader (%s): ReadAt(len %d, off %d) = %d, %v on a valid tree of %d bytes with every blob stored", round, g, parG, phase, n, off, got, err, len(want)), "readat"})
						} else if got != len(exp) || !bytes.Equal(buf[:got], exp) {
							nviol.Add(1)
							parEmit("VIOL", parViol{"parallel-read/readat/wrong-bytes", fmt.Sprintf("round %d, goroutine %d of %d sharing one fresh FileReader (%s): ReadAt(len %d, off %d) = %d, %v; got %s want %s", round, g, parG, phase, n, off, got, err, hexs(buf[:got]), hexs(exp)), "readat"})
						}
					}
					<-start
					// cold steps: a window strictly inside one root part per step
					for k := 0; k*parG+g < len(perm); k++ {
						pi := perm[k*parG+g]
						p := t.root.parts[pi]
						o := grng.Intn(p.size)
						n := 1 + grng.Intn(p.size-o)
						check("cold step", t.starts[pi]+o, n)
					}
					// warm: windows crossing part boundaries, the tail, the whole file
					for i := 0; i < 4; i++ {
						pi := grng.Intn(len(t.root.parts))
						o := t.starts[pi] + grng.Intn(t.root.parts[pi].size)
						check("warm crossing", o, 1+grng.Intn(300))
					}
					check("warm whole file", 0, len(want)+1)
				}(g)
			}
			close(start)
			wg.Wait()
			fr.Close()
			full, refs := ff.groups()
			stat.Rendezvous += full
			for r := range refs {
				together[r] = true
			}
			for _, c := range ff.fetched {
				stat.ColdFetches += c
			}
			if ff.gaveUp.Load() {
				stat.GaveUp++
			}
		}
		stat.Reads = int(reads.Load())
		stat.ColdTogether = len(together)
		parEmit("STAT", stat)
	}
	parOut.Lock()
	fmt.Println("@@DONE")
	parOut.Unlock()
}

// ---------------------------------------------------------------- parent

var parFrame = regexp.MustCompile(`(?m)^perkeep\.org/pkg/(schema\.[^\s(]*(?:\(\*?\w+\))?[^\s(]*)\(`)

// parFunc names the first pkg/schema function of a stack ("schema.(*FileReader).getSuperset.func1").
func parFunc(stack string) string {
	if m := parFrame.FindStringSubmatch(stack); m != nil {
		return m[1]
	}
	return "unknown"
}

// parCrash looks for a runtime fatal error / panic whose crashing goroutine (the first one
// of the report) runs pkg/schema code.
func parCrash(out string) (kind, fn, report string, ok bool) {
	i := strings.Index(out, "fatal error: concurrent map")
	kind = "process-died"
	if i < 0 {
		if i = strings.Index(out, "\npanic: "); i < 0 {
			return "", "", "", false
		}
		i++
	}
	rest := out[i:]
	first := rest
	if j := strings.Index(rest, "\n\ngoroutine "); j >= 0 {
		// the block of the crashing goroutine: up to the next empty line
		blk := rest[j+2:]
		if k := strings.Index(blk, "\n\n"); k >= 0 {
			blk = blk[:k]
		}
		first = rest[:j+2] + blk
	}
	if !strings.Contains(first, "perkeep.org/pkg/schema.") {
		return "", "", "", false
	}
	if len(first) > 6000 {
		first = first[:6000]
	}
	return kind, parFunc(first), first, true
}

func parRunChild(r *ev.Run) (out string, code int, timedOut bool, err error) {
	exe := "/proc/self/exe"
	if _, e := os.Stat(exe); e != nil {
		if exe, e = os.Executable(); e != nil {
			return "", 3, false, e
		}
	}
	cmd := exec.Command(exe)
	cmd.Env = append(os.Environ(), parChildEnv+"=parallel", fmt.Sprintf("VERIF_SEED=%d", r.Seed), "VERIF_TIER="+r.Tier)
	var buf bytes.Buffer
	cmd.Stdout = &buf
	cmd.Stderr = &buf
	if e := cmd.Start(); e != nil {
		return "", 3, false, e
	}
	done := make(chan error, 1)
	go func() { done <- cmd.Wait() }()
	var werr error
	select {
	case werr = <-done:
	case <-time.After(parChildLimit):
		timedOut = true
		cmd.Process.Signal(syscall.SIGQUIT)
		select {
		case werr = <-done:
		case <-time.After(10 * time.Second):
			cmd.Process.Kill()
			werr = <-done
		}
	}
	if werr != nil {
		if ee, ok := werr.(*exec.ExitError); ok {
			code = ee.ExitCode()
		} else {
			code = 3
		}
	}
	return buf.String(), code, timedOut, nil
}

func parallelJobs(r *ev.Run) []job {
	return []job{{id: "p0;", weight: 1 << 21, fn: func() { runParallel(r) }}}
}

func runParallel(r *ev.Run) {
	out, code, timedOut, err := parRunChild(r)
	if err != nil {
		r.Inconclusive("parallel-read family: cannot start the child process: " + err.Error())
		return
	}
	var lastCase json.RawMessage
	doneSeen := false
	sc := bufio.NewScanner(strings.NewReader(out))
	sc.Buffer(make([]byte, 1<<20), 1<<26)
	for sc.Scan() {
		line := sc.Text()
		switch {
		case strings.HasPrefix(line, "@@CASE "):
			lastCase = json.RawMessage(line[7:])
		case strings.HasPrefix(line, "@@INCONCL "):
			r.Inconclusive("parallel-read family: " + line[10:])
		case strings.HasPrefix(line, "@@VIOL "):
			var v parViol
			if json.Unmarshal([]byte(line[7:]), &v) == nil {
				r.Violation(v.Sig, v.What, map[string]any{"family": "parallel-read", "goroutines": parG, "op": v.Op, "case": lastCase})
			}
		case strings.HasPrefix(line, "@@STAT "):
			var s parStat
			if json.Unmarshal([]byte(line[7:]), &s) != nil {
				continue
			}
			r.Note("parallel_read", "ran")
			r.Note("parallel_read", "root="+s.RootType)
			r.Note("parallel_read", fmt.Sprintf("depth=%d", s.Depth))
			r.Note("parallel_read", fmt.Sprintf("bytesref-parts=%d", s.Parts))
			if s.Rendezvous > 0 {
				r.Note("parallel_read", fmt.Sprintf("%d-goroutines-cold-on-distinct-bytesrefs-together", parG))
			}
			if s.GaveUp > 0 {
				r.Note("parallel_read", "rendezvous-given-up(schedule-only)")
			}
			r.Count("parallel_read_trees", 1)
			r.Count("parallel_read_rounds(fresh FileReader each)", s.Rounds)
			r.Count("parallel_read_goroutine_runs", s.Rounds*parG)
			r.Count("parallel_read_reads_compared", s.Reads)
			r.Count("parallel_read_nested_schema_fetches(cold)", s.ColdFetches)
			r.Count("parallel_read_rendezvous(all goroutines fetching distinct cold bytesRefs together)", s.Rendezvous)
			r.Count("parallel_read_distinct_bytesrefs_hit_cold_together", s.ColdTogether)
			r.Count("trees", 1)
			r.Distinct("tree/" + s.Root)
			r.Eval(s.Reads)
		case line == "@@DONE":
			doneSeen = true
		}
	}
	if doneSeen && code == 0 {
		return
	}
	if _, fn, report, ok := parCrash(out); ok && !timedOut {
		r.Violation("parallel-read/process-died/"+fn,
			fmt.Sprintf("%d goroutines calling ReadAt on ONE fresh FileReader of a valid tree (distinct nested bytes blobs, cold cache) killed the process (exit code %d):\n%s", parG, code, report),
			map[string]any{"family": "parallel-read", "goroutines": parG, "case": lastCase, "how": "VERIF_C15_CHILD=parallel VERIF_SEED=<seed> VERIF_TIER=<tier> <c15 binary>"})
		r.Note("parallel_read", "ran")
		return
	}
	tail := out
	if len(tail) > 1500 {
		tail = tail[len(tail)-1500:]
	}
	if timedOut {
		r.Inconclusive(fmt.Sprintf("parallel-read family: the child process did not finish within %v", parChildLimit))
		return
	}
	r.Inconclusive(fmt.Sprintf("parallel-read family: the child process ended with code %d without a pkg/schema crash report: %s", code, tail))
}
