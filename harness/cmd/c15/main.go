// C15 — files and directories written as schema blobs read back exactly.
//
// Part 1 (writer.go): schema.WriteFileFromReader over lengths x contents x source-reader
// shapes into a memory store; read back through schema.FileReader and through the
// harness's own interpreter of doc/schema/bytes.md.
// Part 1b (faults.go): the same writers (plus WriteFileMap and WriteFileChunks) against a
// store with one seeded transient ReceiveBlob/StatBlobs failure, delayed and reordered
// completions and pre-existing blobs: a nil error implies a complete, readable file.
// Part 2 (trees.go): seeded well-formed file/bytes part trees written as raw JSON;
// FileReader.ReadAt / Seek+Read / ReadAll compared with the interpreter.
// Part 2b (huge.go): sparse trees with holes, offsets and sizes beyond 2^31 / 2^32, read
// around their late part boundaries against a lazy interpreter of the stored JSON.
// Part 2c (holes.go): trees with holes of 4 KiB-1 ... 2 MiB read with one ReadAt / Read /
// io.ReadFull call into buffers pre-filled with non-zero bytes (4 KiB+1, 8 KiB, 64 KiB,
// 1 MiB, seeded sizes) and through io.CopyBuffer with a reused buffer.
// Part 2d (treefaults.go): every tree of Parts 2 and 2c again through a fetcher that fails
// one seeded fetch once: reads on the same FileReader and on a fresh one return an error
// or exactly the denoted bytes.
// Part 2e (deepfaults.go): writer-made files and the trees of Parts 2 / 2c with one blob
// BELOW a bytesRef part (data chunk of a nested bytes blob, bytes blob two levels down)
// unfetchable (for the whole read, or on its first fetch only), read through ReadAt,
// io.ReadAll, io.Copy, io.CopyBuffer, io.SectionReader, a Read loop and Seek+ReadAll: a
// read that ends without an error has delivered ALL the denoted bytes (length compared
// with the true size: a clean end on a strict prefix is a violation).
// Part 2f (parallel.go): 8 goroutines calling ReadAt on ONE fresh FileReader of a tree with
// 16-64 distinct nested bytes blobs, landing on different unresolved bytesRef parts at the
// same time; run in a child process (a runtime fatal error there is a violation).
// Part 3b (dirfaults.go): every such directory again through a fetcher that fails one
// seeded fetch once (k-th static-set blob of the walk or a member entry; error, not-exist,
// truncated body, context cancelled): the failing call, later calls on the SAME DirReader
// and a fresh reader each return an error or the complete exact listing.
// Part 3 (dirs.go): static-set splitting with a lowered threshold and, for a few large
// directories, with perkeep's own threshold (real sha224 / sha256 / sha1 refs): every
// static-set blob the writer produces is a schema blob within the size limit,
// DirReader.StaticSet lists exactly the members, and DirReader.Readdir lists exactly the
// stored entries when the members are file / directory / symlink schema blobs.
package main

import (
	"fmt"
	"io"
	"log"
	"os"
	"runtime"
	"strings"
	"sync"

	"verif.local/harness/ev"
)

const (
	kib = 1 << 10
	mib = 1 << 20

	// The chunk size limit of the property ("no chunk exceeds the chunk size limit"):
	// pkg/schema/filewriter.go maxBlobSize.
	chunkLimit = 1 << 20
	// Constants of the chunker, used only to aim the generators and to label what was
	// observed; no verdict depends on them.
	firstChunk = 256 << 10 // firstChunkSize
	minChunk   = 64 << 10  // tooSmallThreshold
	lookahead  = 32 << 10  // bufioReaderSize
)

func main() {
	if os.Getenv(parChildEnv) == "parallel" {
		parallelChild()
		os.Exit(0)
	}
	ev.Main("C15", "exploration",
		"files: lengths {0,1,64Ki+-1,256Ki+-1,288Ki+-1,320Ki+-1,1Mi+-1,1.25Mi+-1,2-5Mi} x content {zeros,random,engineered rollsum windows / periodic} x source reader shape {whole,onebyte,half,short,dataeof,zeroreads}, written with schema.WriteFileFromReader and read back; faulted writes: (one transient failure of the k-th chunk / bytes-schema / file-schema ReceiveBlob or k-th StatBlobs, before or after effect) x (learned at once / while the source still delivers / only after source EOF) x store prestate {empty, same file, same content other name, random subset, prefix chunks} x entry point {WriteFileFromReader, WriteFileMap, WriteFileChunks+upload}, nil error => every referenced blob stored and exact read-back, error => retry into the same store must succeed; trees: seeded well-formed file/bytes part trees (depth<=3; blobRef/bytesRef/hole parts, offsets, parts ending before their referent) as raw JSON, every part boundary +-1 and mid-part ReadAt, Seek+Read, full reads against the harness's own bytes.md interpreter, ForeachChunk (schemaPath and never-a-bytesRef always; chunk content when no bytesRef part is sub-ranged); sparse trees (depth<=3) with 2-8 GiB holes around 2^31/2^32/5 GiB, blobs behind them and sub-ranged bytesRef parts whose offset lies inside such a hole: ReadAt at every leaf boundary +-1, at 2^31/2^32 marks inside the holes and beyond EOF, Seek (all whences) + Read, against a lazy range interpreter of the stored JSON; every read buffer of the tree families is pre-filled with non-zero bytes (a reader must write what it reports, zeros of holes included), and trees with holes of 4 KiB-1 ... 2 MiB (depth<=3, bytesRef windows starting / ending inside holes) as well as the 2-8 GiB holes are read with ONE ReadAt / Read / io.ReadFull call into such buffers of 4 KiB+1, 8 KiB, 64 KiB, 1 MiB and seeded sizes (starting with the hole, inside it, running into it, leaving it after more than a page) and through io.CopyBuffer with one reused buffer; each tree again through a fetcher that fails one seeded fetch once (root / bytes schema / data blob; error, not-exist, truncated body, context cancelled): a read on the same FileReader or a fresh one fails or returns exactly the denoted bytes; writer-made files and every tree again with one blob below a bytesRef part (data chunk of a nested bytes blob / bytes blob two levels down) unfetchable for the whole read or on its first fetch only, read through ReadAt, io.ReadAll, io.Copy, io.CopyBuffer, io.SectionReader, a Read loop and Seek+ReadAll: a read that ends without an error (nil, or io.EOF) has delivered all the denoted bytes up to the true size; parallel reads (in a child process, since the typical failure is a runtime fatal error): directed valid trees (root file/bytes, depth 2 and 3) whose root has 16-64 distinct nested bytes blobs as bytesRef parts, per tree 24 (thorough 40) rounds with a fresh FileReader shared by 8 goroutines released together, at every step the 8 goroutines ReadAt seeded windows inside 8 different not yet resolved bytesRef parts (the fetcher holds the 8 nested-blob fetches until all have arrived), then windows crossing parts and the whole file: every read returns exactly the denoted bytes and the process survives; directories: static-set splitting with threshold m in {3,4,7}, member counts around m, m^2, m^3, members {distinct, drawn from a small pool, all the same, stored file/directory/symlink entries listed through Readdir(-1), Readdir(0), first Readdir(n)}; and with the PRODUCTION threshold untouched: directories of 9 999 / 10 000 / 10 001 / 15 000 / 20 000+-1 / 30 000 / ~35 000 members with sha224, sha256, sha1 and mixed refs (quick: ~35 000 sha256, 15 000 sha224, 10 001 stored entries), every static-set blob written must be a valid schema blob of at most schema.MaxSchemaBlobSize bytes, building must not panic, the listing must be exact (recursive splitting at the production threshold would need 10^8 members and is only exercised at lowered thresholds); every directory again through a fetcher that fails once on the k-th static-set fetch of the walk (top set, first subset, later subset, inner subset of a recursive split) or on one member entry, then StaticSet / Readdir on the SAME DirReader (from NewDirReader or DirectoryEntry.Directory) and on a fresh one: each call fails or lists exactly the members. distinct = per (length,content,reader,replica) file / per tree root ref / per (m,count,variant) directory; non-trivial = file length>0, tree with >=2 parts or a nested/offset part, directory that was split; hole trees count per root ref",
		run)
}

type job struct {
	id     string
	weight int
	fn     func()
}

func run(r *ev.Run) {
	log.SetOutput(io.Discard)
	r.Assume("oracle for file/bytes trees = the harness's own interpreter of doc/schema/bytes.md: denote(node) = concat over parts of zeros(size) | blob[offset:offset+size] | denote(bytesRef)[offset:offset+size]; it parses the JSON with encoding/json and shares no code with pkg/schema")
	r.Assume("perkeep's in-memory blob store (pkg/blobserver/memory) is trusted as the blob map under test inputs; blob refs of generated blobs are computed with crypto/sha256 directly")
	r.Assume("chunk size limit = 1 MiB (pkg/schema/filewriter.go maxBlobSize); the other chunker constants only aim the generators and label observations")
	r.Assume("faulted writes: the store wrapper fails exactly one call with a plain (non-ErrNotExist) error and otherwise behaves as the memory store; a writer error is accepted iff that failure was delivered; waits in the wrapper and the source only shape the schedule")
	r.Assume("io.Reader / io.ReaderAt / io.Seeker contracts of the Go standard library define what a source reader may do and what a read must return")

	if err := initWindows(); err != nil {
		r.Inconclusive("cannot engineer rollsum windows: " + err.Error())
		return
	}

	var jobs []job
	jobs = append(jobs, writerJobs(r)...)
	jobs = append(jobs, treeJobs(r)...)
	jobs = append(jobs, hugeJobs(r)...)
	jobs = append(jobs, holeJobs(r)...)
	jobs = append(jobs, faultJobs(r)...)
	jobs = append(jobs, parallelJobs(r)...)

	// heavy jobs first
	sortJobs(jobs)

	var wg sync.WaitGroup
	// Part 3 uses a process-global hook: one goroutine, sequential per m.
	wg.Add(1)
	go func() {
		defer wg.Done()
		runDirs(r)
	}()

	workers := runtime.GOMAXPROCS(0)
	if workers > 16 {
		workers = 16
	}
	ch := make(chan job)
	for i := 0; i < workers; i++ {
		wg.Add(1)
		go func() {
			defer wg.Done()
			for j := range ch {
				j := j
				r.Guard("case", map[string]any{"case_id": j.id}, j.fn)
			}
		}()
	}
	for _, j := range jobs {
		if !r.Only(j.id) {
			continue
		}
		ch <- j
	}
	close(ch)
	wg.Wait()

	r.Extra("tier_sizes", map[string]int{"file_cases": countPrefix(jobs, "w"), "tree_cases": countPrefix(jobs, "t"), "sparse_tree_cases": countPrefix(jobs, "h"), "hole_tree_cases": countPrefix(jobs, "z"), "faulted_write_cases": countPrefix(jobs, "f")})
	if os.Getenv("VERIF_ONLY") == "" {
		requireAll(r)
	}
}

func countPrefix(js []job, p string) int {
	n := 0
	for _, j := range js {
		if strings.HasPrefix(j.id, p) {
			n++
		}
	}
	return n
}

func sortJobs(js []job) {
	// stable insertion by weight descending (job lists are a few thousand long at most;
	// use a simple bucket approach to stay deterministic)
	buckets := map[int][]job{}
	var keys []int
	for _, j := range js {
		if _, ok := buckets[j.weight]; !ok {
			keys = append(keys, j.weight)
		}
		buckets[j.weight] = append(buckets[j.weight], j)
	}
	for i := 0; i < len(keys); i++ {
		for k := i + 1; k < len(keys); k++ {
			if keys[k] > keys[i] {
				keys[i], keys[k] = keys[k], keys[i]
			}
		}
	}
	out := js[:0:0]
	for _, k := range keys {
		out = append(out, buckets[k]...)
	}
	copy(js, out)
}

func requireAll(r *ev.Run) {
	// part 1
	r.Require("file_length_class", lengthClassNames()...)
	r.Require("file_content", "zeros", "random", "engineered")
	r.Require("file_reader_shape", readerShapes...)
	r.Require("file_events",
		"first-chunk=256Ki", "first-chunk-extended", "hard-cap-chunk=1Mi", "nested-bytes", "tree-depth>=3",
		"planted-at-min-ignored", "planted-at-min+1-taken", "planted-before-first-chunk-ignored",
		"single-chunk", "empty-file", "dedup-same-blob-adjacent", "source-returned-data+EOF", "source-returned-zero-read")
	// part 1b
	r.Require("fault_kind", fNone, fRecvErr, fRecvErrAfter, fStatErr, fStatErrAfter)
	r.Require("fault_fired", fRecvErr+"@"+tChunk, fRecvErrAfter+"@"+tChunk, fRecvErr+"@"+tBytes, fRecvErr+"@"+tFile, fStatErr+"@"+tAny, fStatErrAfter+"@"+tPres)
	r.Require("fault_timing", tmNow, tmWait, tmHeld)
	r.Require("fault_prestore", preEmpty, preSame, preOther, preSubset, prePrefix)
	r.Require("fault_api", apiReader, apiFileMap, apiChunks)
	r.Require("fault_outcome", "error-before-source-eof", "error-after-source-eof", "nil-error-no-fault,complete", "retry-complete")
	// part 2
	r.Require("tree_shape",
		"root=file", "root=bytes", "depth=1", "depth=2", "depth=3",
		"hole", "blob-full", "blob-offset", "blob-short", "blob-offset+short",
		"bytes-full", "bytes-offset", "bytes-short", "bytes-offset+short",
		"same-blob-twice", "same-blob-adjacent", "shared-bytes-node", "single-part", "hole-only", "empty-root", "known-witness", "hole>4Ki")
	r.Require("read_kinds", "readat", "readat-beyond-eof", "readat-short-at-eof", "seek+read", "sequential-read", "readall",
		"readat-mid-part-crossing-short-part", "foreachchunk-tree", "foreachchunk-nested-tree")
	// part 2b
	r.Require("sparse_tree_shape", "huge-hole", "root=file", "root=bytes", "depth=1", "depth=2", "depth=3", "size>=2^32",
		"blob-offset", "blob-short", "bytes-full", "bytes-short", "bytes-offset", "bytes-offset>=2^31", "bytes-offset>=2^32")
	r.Require("sparse_read", "readat-blob-partstart@>=2^32", "readat-blob-midpart-crossing@>=2^32", "readat-hole-midpart-crossing@>=2^32",
		"readat-hole-midpart@>=2^31", "readat-blob-partstart-crossing@>=2^31", "seek+read@>=2^32", "seek+read@>=2^31",
		"readat-dirty:buf=4Ki+1", "readat-dirty:buf=8Ki", "readat-dirty:buf=64Ki", "readat-dirty:buf=1Mi",
		"readat-dirty:inside-hole@>=2^32", "readat-dirty:runs-into-hole@>=2^31", "readat-dirty:leaves-hole-after>4Ki@>=2^32", "seek+read-dirty>4Ki")
	// part 2d
	r.Require("tree_fault", "bytes-schema", "data-blob", "open-failed", "fresh-reader-afterwards")
	r.Require("tree_fault_kind", ffKinds...)
	r.Require("tree_fault_first_read", "error")
	r.Require("tree_fault_same_reader_again", "exact-bytes")
	// part 2e
	r.Require("deep_fault_family", "writer-file", "tree", "hole-tree")
	r.Require("deep_fault_mode", "missing", "once")
	r.Require("deep_fault_kind", ffKinds...)
	r.Require("deep_fault", "data-chunk@hops=1:error-reported", "data-chunk@hops=2:error-reported", "bytes-schema@hops=1:error-reported")
	for _, op := range deepOps {
		r.Require("deep_fault_read", op+":error")
	}
	// part 2f
	r.Require("parallel_read", "ran", fmt.Sprintf("%d-goroutines-cold-on-distinct-bytesrefs-together", parG), "depth=2", "depth=3", "root=file", "root=bytes")
	// part 2c
	r.Require("hole_tree_shape", "hole>4Ki", "hole>=64Ki", "hole>=1Mi", "root=file", "root=bytes", "depth=1", "depth=2", "depth=3", "bytes-offset", "bytes-short", "bytes-full")
	r.Require("hole_read",
		"readat:one-call-hole-bytes>4Ki", "readat:one-call-hole-bytes>=64Ki", "readat:one-call-hole-bytes>=1Mi",
		"readat:buf=4Ki+1", "readat:buf=8Ki", "readat:buf=64Ki", "readat:buf=1Mi",
		"read:one-call-hole-bytes>4Ki", "read:one-call-hole-bytes>=64Ki", "read:one-call-hole-bytes>=1Mi",
		"read:buf=4Ki+1", "read:buf=8Ki", "read:buf=64Ki", "read:buf=1Mi",
		"copybuffer:buf=4Ki+1", "copybuffer:buf=8Ki", "copybuffer:buf=64Ki", "copybuffer:buf=1Mi")
	// part 3
	r.Require("dir_branch", "single", "split-flat/exact", "split-flat/rest", "split-recursive/exact", "split-recursive/rest")
	r.Require("dir_threshold", "m=3", "m=4", "m=7", "production")
	r.Require("dir_variant", "distinct", "dupes", "all-same", "entries")
	r.Require("dir_readdir", "all@lowered-threshold", "first-page@lowered-threshold")
	r.Require("dir_production", "split", "split-flat/rest", "sha256-refs", "sha224-refs", "distinct", "entries", "readdir")
	r.Require("dir_readdir", "all@production-threshold", "first-page@production-threshold")
	// part 3b
	r.Require("dir_fault", "top-set", "first-subset", "later-subset", "first-subset(inner)", "later-subset(inner)", "member-entry",
		"same-reader-listed-exactly-after-later-fetch-failed", "fresh-reader-afterwards")
	r.Require("dir_fault_kind", ffKinds...)
	r.Require("dir_fault_threshold", "lowered-threshold", "production-threshold")
	r.Require("dir_fault_reader", "NewDirReader", "DirectoryEntry.Directory")
	r.Require("dir_fault_same_reader_again", "StaticSet:complete-listing", "Readdir:complete-listing")
	if r.Thorough() {
		r.Require("dir_production", "single", "split-flat/exact", "sha1-refs", "mixed-refs", "dupes", "all-same")
	}
}

func hexs(b []byte) string {
	const max = 96
	if len(b) > max {
		return fmt.Sprintf("%x…(%d bytes)", b[:max], len(b))
	}
	return fmt.Sprintf("%x", b)
}

// show renders small byte strings readably.
func show(b []byte) string {
	printable := true
	for _, c := range b {
		if c < 0x20 || c > 0x7e {
			printable = false
			break
		}
	}
	if printable && len(b) <= 120 {
		return fmt.Sprintf("%q", string(b))
	}
	return hexs(b)
}
