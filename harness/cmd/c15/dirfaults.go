package main

// Part 3b: a DirReader that met a transient fetch failure.
//
// A directory split over several static-set blobs is listed by fetching those blobs one
// after the other.  When one of those fetches fails, the call fails; the property still
// binds every call that does NOT fail: "a directory listing split over several static-set
// blobs lists exactly the original members".  DirReader objects outlive one call (they
// cache the listing; dirEntry.Directory() hands the same one out again), so the sequence
// observed here is: one seeded fetch fails once (the k-th static-set fetch of the walk -
// top blob, first subset, a LATER subset, a nested subset - or one member entry), then
// the SAME reader is asked again (StaticSet / Readdir), then a fresh reader over the
// same fetcher.  Oracle: a call returns an error or the complete, exact listing; the
// failing call may only fail if the seeded failure was delivered during it; a fresh
// reader, with the failure spent, lists exactly.  Whether the same reader recovers or
// keeps failing is recorded, not judged.

import (
	"context"
	"encoding/json"
	"errors"
	"fmt"
	"io"
	"os"
	"sync"

	"perkeep.org/pkg/blob"
	"perkeep.org/pkg/blobserver/memory"
	"perkeep.org/pkg/schema"

	"verif.local/harness/ev"
)

var errTransientFetch = errors.New("c15: injected transient fetch failure")

const (
	ffError     = "error"      // Fetch returns a plain error
	ffNotExist  = "not-exist"  // Fetch returns os.ErrNotExist (blob momentarily not visible)
	ffTruncated = "truncated"  // Fetch succeeds, the body ends early with an error
	ffCanceled  = "ctx-cancel" // Fetch returns context.Canceled (caller's deadline)
)

var ffKinds = []string{ffError, ffNotExist, ffTruncated, ffCanceled}

// flakyFetcher fails exactly one Fetch: the k-th call after arming (byCount) or the first
// fetch of one ref (byRef).  Everything else is the memory store.
type flakyFetcher struct {
	inner blob.Fetcher

	mu     sync.Mutex
	armed  bool
	k      int      // fail the k-th Fetch after arming (1-based); 0 = by ref
	ref    blob.Ref // fail the first Fetch of ref
	kind   string
	calls  int
	fired  int
	seq    []blob.Ref // refs fetched since arming, in order (recorded while k >= 0)
	record bool
	// sticky (by-ref mode only): EVERY fetch of ref fails while armed (a blob that is
	// missing / unreachable for the duration of the read), not just the first one.
	sticky bool
}

func (f *flakyFetcher) arm(k int, ref blob.Ref, kind string) {
	f.mu.Lock()
	defer f.mu.Unlock()
	f.armed, f.k, f.ref, f.kind, f.calls, f.fired = true, k, ref, kind, 0, 0
}

func (f *flakyFetcher) firedCount() int {
	f.mu.Lock()
	defer f.mu.Unlock()
	return f.fired
}

type truncatedBody struct {
	io.ReadCloser
	left int
}

func (t *truncatedBody) Read(p []byte) (int, error) {
	if t.left <= 0 {
		return 0, errTransientFetch
	}
	if len(p) > t.left {
		p = p[:t.left]
	}
	n, err := t.ReadCloser.Read(p)
	t.left -= n
	if err == io.EOF {
		err = errTransientFetch
	}
	return n, err
}

func (f *flakyFetcher) Fetch(ctx context.Context, br blob.Ref) (io.ReadCloser, uint32, error) {
	f.mu.Lock()
	fail := false
	if f.record {
		f.seq = append(f.seq, br)
	}
	if f.armed {
		f.calls++
		if (f.k > 0 && f.calls == f.k) || (f.k == 0 && br == f.ref) {
			fail = true
			f.armed = f.sticky && f.k == 0
			f.fired++
		}
	}
	kind := f.kind
	f.mu.Unlock()
	if fail {
		switch kind {
		case ffNotExist:
			return nil, 0, os.ErrNotExist
		case ffCanceled:
			return nil, 0, context.Canceled
		case ffTruncated:
			rc, size, err := f.inner.Fetch(ctx, br)
			if err != nil {
				return nil, 0, err
			}
			return &truncatedBody{ReadCloser: rc, left: int(size) / 2}, size, nil
		}
		return nil, 0, fmt.Errorf("fetching %v: %w", br, errTransientFetch)
	}
	return f.inner.Fetch(ctx, br)
}

// faultPos describes where in the walk the failing fetch lies.
func faultPos(st *memory.Storage, seq []blob.Ref, k int) string {
	if k == 1 {
		return "top-set"
	}
	// a leaf subset (one that carries members) fully read before position k?
	leavesBefore := 0
	for _, br := range seq[:k-1] {
		s, ok := st.BlobContents(br)
		if !ok {
			continue
		}
		var js jset
		if json.Unmarshal([]byte(s), &js) == nil && len(js.Members) > 0 {
			leavesBefore++
		}
	}
	var js jset
	if s, ok := st.BlobContents(seq[k-1]); ok {
		json.Unmarshal([]byte(s), &js)
	}
	pos := "first-subset"
	if leavesBefore > 0 {
		pos = "later-subset"
	}
	if len(js.MergeSets) > 0 {
		pos += "(inner)"
	}
	return pos
}

// checkDirAfterFault runs the fault sequences for one stored directory.  members is the
// exact listing; ents is non-nil when the members are stored entries (Readdir usable).
func checkDirAfterFault(r *ev.Run, dc dirCase, st *memory.Storage, dirRef blob.Ref, members []blob.Ref, ents []entryWant, branch string, viol func(sig, format string, a ...any)) {
	ctx := context.Background()
	rng := r.Rand("dirfault/" + dc.CaseID)

	// the fetches one fault-free StaticSet makes, in order
	probe := &flakyFetcher{inner: st}
	dr0, err := schema.NewDirReader(ctx, probe, dirRef)
	if err != nil {
		return // reported by the caller's own fault-free pass
	}
	probe.mu.Lock()
	probe.record = true
	probe.mu.Unlock()
	if _, err := dr0.StaticSet(ctx); err != nil {
		return
	}
	seq := append([]blob.Ref(nil), probe.seq...)
	nfetch := len(seq)
	if nfetch == 0 {
		return
	}

	// positions: every one for small walks, else first, second, last and seeded ones
	var ks []int
	limit := 6
	if dc.M == 0 {
		limit = 2 // production-sized directories: each walk parses megabytes of JSON
		if r.Thorough() {
			limit = 4
		}
	}
	if nfetch <= limit {
		for k := 1; k <= nfetch; k++ {
			ks = append(ks, k)
		}
	} else {
		set := map[int]bool{nfetch: true}
		if limit > 2 {
			set[1], set[2] = true, true
		}
		for len(set) < limit {
			set[2+rng.Intn(nfetch-1)] = true // 2..nfetch: something was read before
		}
		for k := 1; k <= nfetch; k++ {
			if set[k] {
				ks = append(ks, k)
			}
		}
	}

	sameListing := func(got []blob.Ref) (string, bool) {
		if len(got) != len(members) {
			return fmt.Sprintf("%d members, the directory has %d", len(got), len(members)), false
		}
		for i := range got {
			if got[i] != members[i] {
				return fmt.Sprintf("member %d is %s, want %s", i, got[i], members[i]), false
			}
		}
		return "", true
	}
	sameEntries := func(got []schema.DirectoryEntry) (string, bool) {
		if len(got) != len(members) {
			return fmt.Sprintf("%d entries, the directory has %d", len(got), len(members)), false
		}
		for i, e := range got {
			if e == nil || e.BlobRef() != members[i] || e.FileName() != ents[i].name || string(e.CamliType()) != ents[i].typ {
				return fmt.Sprintf("entry %d is not %s %q %s", i, ents[i].typ, ents[i].name, members[i]), false
			}
		}
		return "", true
	}

	type lister interface {
		Readdir(ctx context.Context, n int) ([]schema.DirectoryEntry, error)
	}
	// call performs one listing call; it returns (description of what is wrong with a
	// nil-error result, nil-error?, the error)
	call := func(dr *schema.DirReader, l lister, api string) (bad string, err error) {
		switch api {
		case "StaticSet":
			got, err := dr.StaticSet(ctx)
			if err != nil {
				return "", err
			}
			bad, _ := sameListing(got)
			return bad, nil
		default: // Readdir(-1) / Readdir(0)
			n := -1
			if api == "Readdir(0)" {
				n = 0
			}
			got, err := l.Readdir(ctx, n)
			if err != nil {
				return "", err
			}
			bad, _ := sameEntries(got)
			return bad, nil
		}
	}

	type plan struct {
		k    int      // k-th static-set fetch of the walk, or 0
		ref  blob.Ref // member entry to fail (k == 0)
		pos  string
		kind string
	}
	var plans []plan
	for _, k := range ks {
		plans = append(plans, plan{k: k, pos: faultPos(st, seq, k), kind: ffKinds[rng.Intn(len(ffKinds))]})
	}
	if ents != nil && len(members) > 0 {
		plans = append(plans, plan{ref: members[rng.Intn(len(members))], pos: "member-entry", kind: ffKinds[rng.Intn(len(ffKinds))]})
	}

	for _, pl := range plans {
		ff := &flakyFetcher{inner: st}
		var dr *schema.DirReader
		var l lister
		via := "NewDirReader"
		if ents != nil && rng.Intn(3) == 0 {
			// the reader a DirectoryEntry hands out (and keeps)
			via = "DirectoryEntry.Directory"
			de, err := schema.NewDirectoryEntryFromBlobRef(ctx, ff, dirRef)
			if err != nil {
				viol("staticset-error/"+branch, "NewDirectoryEntryFromBlobRef: %v", err)
				return
			}
			d, err := de.Directory(ctx)
			if err != nil {
				viol("staticset-error/"+branch, "DirectoryEntry.Directory: %v", err)
				return
			}
			l = d
			dr, _ = d.(*schema.DirReader)
		} else {
			var err error
			dr, err = schema.NewDirReader(ctx, ff, dirRef)
			if err != nil {
				viol("staticset-error/"+branch, "NewDirReader: %v", err)
				return
			}
			l = dr
		}
		apis := []string{"StaticSet"}
		if ents != nil {
			apis = []string{"StaticSet", "Readdir(-1)", "Readdir(0)"}
		}
		if dr == nil {
			apis = []string{"Readdir(-1)", "Readdir(0)"}
		}
		first := apis[rng.Intn(len(apis))]
		if pl.k == 0 {
			first = []string{"Readdir(-1)", "Readdir(0)"}[rng.Intn(2)] // only Readdir fetches members
		}
		where := fmt.Sprintf("reader from %s; the %s fetch fails once (%s)", via, pl.pos, pl.kind)
		if pl.k > 0 {
			where = fmt.Sprintf("reader from %s; static-set fetch %d of %d (%s) fails once (%s)", via, pl.k, nfetch, pl.pos, pl.kind)
		}

		// call 1: the seeded failure is pending
		ff.arm(pl.k, pl.ref, pl.kind)
		bad, err := call(dr, l, first)
		r.Eval(1)
		r.Count("dir_fault_sequences", 1)
		fired := ff.firedCount()
		switch {
		case err != nil && fired == 0:
			viol("staticset-error/"+branch, "%s: %s failed though no fetch had failed: %v", where, first, err)
			return
		case err == nil && bad != "":
			viol("listing-with-fault/"+branch, "%s: %s returned a nil error and %s", where, first, bad)
			return
		case err == nil:
			r.Note("dir_fault_first_call", "complete-listing")
		default:
			r.Note("dir_fault_first_call", "error")
		}
		if fired == 0 {
			r.Note("dir_fault_first_call", "fault-not-reached")
			continue
		}
		r.Note("dir_fault", pl.pos)
		r.Note("dir_fault_kind", pl.kind)
		r.Note("dir_fault_threshold", dc.thr())
		r.Note("dir_fault_reader", via)

		// calls 2 and 3: the same reader again, nothing fails any more
		for c := 2; c <= 3; c++ {
			api := apis[rng.Intn(len(apis))]
			bad, err := call(dr, l, api)
			r.Eval(1)
			tag := "StaticSet"
			if api != "StaticSet" {
				tag = "Readdir"
			}
			if err != nil {
				r.Note("dir_fault_same_reader_again(error not judged)", tag+":error")
				continue
			}
			if bad != "" {
				sig := "staticset-after-fault/"
				if tag == "Readdir" {
					sig = "readdir-after-fault/"
				}
				viol(sig+branch, "%s: %s failed; call %d on the SAME reader, %s, then returned a nil error and %s (a listing is exact or the call fails)", where, first, c, api, bad)
				return
			}
			r.Note("dir_fault_same_reader_again", tag+":complete-listing")
			if err == nil && pl.pos != "top-set" && pl.pos != "first-subset" && pl.pos != "first-subset(inner)" {
				r.Note("dir_fault", "same-reader-listed-exactly-after-later-fetch-failed")
			}
		}

		// a fresh reader over the same fetcher: the failure is spent
		fresh, err := schema.NewDirReader(ctx, ff, dirRef)
		if err != nil {
			viol("staticset-error/"+branch, "%s: NewDirReader afterwards: %v", where, err)
			return
		}
		api := apis[rng.Intn(len(apis))]
		if dr == nil {
			api = "StaticSet"
		}
		bad, err = call(fresh, fresh, api)
		r.Eval(1)
		switch {
		case err != nil:
			viol("fresh-reader-after-fault-error/"+branch, "%s: a fresh reader afterwards: %s failed though nothing fails any more: %v", where, api, err)
			return
		case bad != "":
			viol("fresh-reader-after-fault/"+branch, "%s: a fresh reader afterwards: %s returned %s", where, api, bad)
			return
		}
		r.Note("dir_fault", "fresh-reader-afterwards")
	}
}
