package main

// Part 1b — the file writer against a store that is not fresh, not instant and not
// always successful.
//
// The property's clause "every blob the file schema references has been stored" is a
// statement about what a SUCCESSFUL write leaves behind.  Part 1 (writer.go) only ever
// judges it on the happy path of a fresh memory store.  Here the writer's target is a
// memory store behind faultStore, which
//   - fails exactly one seeded call (the k-th ReceiveBlob of a data chunk / of a "bytes"
//     schema blob / of the "file" schema blob, or the k-th StatBlobs) with a transient
//     error, before or after the call took effect,
//   - controls WHEN the writer can learn of it: at once, while the source still has
//     megabytes to deliver (the source reader waits for the failed call to return), or
//     only after the source returned EOF (the failing call is held that long),
//   - perturbs the completion order of the other calls (jitter),
// and which may already hold the same file, the same content under another file name, a
// random subset of its blobs, or the chunks of a prefix (an interrupted earlier upload).
// Three entry points are driven: WriteFileFromReader, WriteFileMap with a caller-made
// Builder, and WriteFileChunks followed by the caller uploading file.Blob() (pk-put).
//
// Oracle (nothing more than the property states):
//   - an error from the writer is acceptable iff the injected fault was delivered;
//   - a nil error implies that every blob the returned schema references, recursively,
//     is in the store, that the tree denotes exactly the source bytes, and that
//     FileReader reads them back; for WriteFileChunks the parts must be stored at the
//     moment it returns, before the caller uploads the file blob;
//   - after an error, writing the same stream again into the same (now healthy, partly
//     filled) store must succeed and read back exactly.
// No verdict depends on time: the waits below only shape the schedule, and their safety
// timeouts merely make a case less targeted (noted in the evidence).

import (
	"bytes"
	"context"
	"encoding/json"
	"errors"
	"fmt"
	"io"
	"math/rand"
	"runtime"
	"strings"
	"sync"
	"sync/atomic"
	"time"

	"perkeep.org/pkg/blob"
	"perkeep.org/pkg/blobserver"
	"perkeep.org/pkg/blobserver/memory"
	"perkeep.org/pkg/schema"

	"verif.local/harness/ev"
)

var errInjected = errors.New("verif: injected transient blob store failure")

const (
	fNone         = "none"
	fRecvErr      = "receive-error"             // ReceiveBlob fails, nothing stored
	fRecvErrAfter = "receive-error-after-store" // ReceiveBlob stores the blob, then reports failure
	fStatErr      = "stat-error"                // StatBlobs fails without reporting anything
	fStatErrAfter = "stat-error-after-report"   // StatBlobs reports the (present) blob, then fails

	tChunk  = "chunk"        // k-th ReceiveBlob of a data chunk
	tBytes  = "bytes-schema" // k-th ReceiveBlob of a "bytes" schema blob
	tFile   = "file-schema"  // ReceiveBlob of the "file" schema blob
	tAny    = "any-stat"     // k-th StatBlobs call
	tPres   = "stat-of-present-blob"
	tNoTarg = "-"

	tmNow   = "immediate"
	tmWait  = "source-waits-for-failure" // source pauses (with data left) until the failed call returned
	tmHeld  = "held-until-source-eof"    // the failing call returns only after the source returned EOF
	tmNoTim = "-"

	preEmpty  = "empty"
	preSame   = "same-file"
	preOther  = "same-content-other-name"
	preSubset = "random-subset"
	prePrefix = "prefix-chunks"

	apiReader  = "WriteFileFromReader"
	apiFileMap = "WriteFileMap"
	apiChunks  = "WriteFileChunks+upload"
)

type faultCase struct {
	CaseID  string `json:"case_id"`
	Length  int    `json:"length"`
	Content string `json:"content"`
	Sub     string `json:"content_detail,omitempty"`
	Shape   string `json:"reader_shape"`
	API     string `json:"api"`
	Fault   string `json:"fault"`
	Target  string `json:"fault_target"`
	Timing  string `json:"fault_timing"`
	Pre     string `json:"prestored"`
	Jitter  bool   `json:"jitter"`
	K       int    `json:"k,omitempty"`       // resolved when the case runs
	WaitAt  int    `json:"wait_at,omitempty"` // resolved when the case runs
}

// ---------------------------------------------------------------- the store wrapper

func classifyBlob(data []byte) string {
	if len(data) > 0 && data[0] == '{' && len(data) < 2*mib {
		var n struct {
			Type string `json:"camliType"`
		}
		if json.Unmarshal(data, &n) == nil {
			switch n.Type {
			case "bytes":
				return tBytes
			case "file":
				return tFile
			}
		}
	}
	return tChunk
}

type faultStore struct {
	inner *memory.Storage

	fault, target, timing string
	k                     int

	mu      sync.Mutex
	jrng    *rand.Rand // nil: no jitter
	armed   bool
	closed  bool
	nRecv   map[string]int
	nStat   map[string]int
	calls   int
	fired   chan struct{} // closed when the injected failure is about to be returned
	didFire bool
	firedOn string
	srcEOF  chan struct{} // closed by the source reader once it returned io.EOF
	done    chan struct{} // closed when the case is over
	heldTO  bool          // the held call gave up waiting for the source's EOF
}

func newFaultStore(inner *memory.Storage, fc *faultCase, jrng *rand.Rand) *faultStore {
	return &faultStore{
		inner: inner, fault: fc.Fault, target: fc.Target, timing: fc.Timing, k: fc.K,
		jrng: jrng, armed: fc.Fault != fNone,
		nRecv: map[string]int{}, nStat: map[string]int{},
		fired: make(chan struct{}), srcEOF: make(chan struct{}), done: make(chan struct{}),
	}
}

func (s *faultStore) jitter() {
	s.mu.Lock()
	var j int
	if s.jrng != nil {
		j = s.jrng.Intn(8)
	}
	s.mu.Unlock()
	switch {
	case j == 0:
	case j < 6:
		for i := 0; i < j; i++ {
			runtime.Gosched()
		}
	default:
		time.Sleep(time.Duration(j-5) * 300 * time.Microsecond)
	}
}

// hold blocks a faulted call until the source reader has returned EOF.
func (s *faultStore) hold() {
	if s.timing != tmHeld {
		return
	}
	select {
	case <-s.srcEOF:
	case <-s.done:
	case <-time.After(20 * time.Second):
		s.mu.Lock()
		s.heldTO = true
		s.mu.Unlock()
	}
}

func (s *faultStore) fire(on string) {
	s.mu.Lock()
	s.didFire = true
	s.firedOn = on
	s.mu.Unlock()
	close(s.fired)
}

func (s *faultStore) ReceiveBlob(ctx context.Context, br blob.Ref, src io.Reader) (blob.SizedRef, error) {
	data, err := io.ReadAll(src)
	if err != nil {
		return blob.SizedRef{}, err
	}
	cls := classifyBlob(data)
	s.mu.Lock()
	if s.closed {
		s.mu.Unlock()
		return blob.SizedRef{}, errors.New("verif: case is over")
	}
	s.calls++
	s.nRecv[cls]++
	hit := s.armed && (s.fault == fRecvErr || s.fault == fRecvErrAfter) && s.target == cls && s.nRecv[cls] == s.k
	if hit {
		s.armed = false
	}
	s.mu.Unlock()
	if !hit {
		s.jitter()
		return s.inner.ReceiveBlob(ctx, br, bytes.NewReader(data))
	}
	if s.fault == fRecvErrAfter {
		if _, err := s.inner.ReceiveBlob(ctx, br, bytes.NewReader(data)); err != nil {
			return blob.SizedRef{}, err
		}
	}
	s.hold()
	s.fire(fmt.Sprintf("ReceiveBlob #%d of class %s (%d bytes)", s.k, cls, len(data)))
	return blob.SizedRef{}, errInjected
}

func (s *faultStore) StatBlobs(ctx context.Context, blobs []blob.Ref, fn func(blob.SizedRef) error) error {
	present := false
	if len(blobs) == 1 {
		_, present = s.inner.BlobContents(blobs[0])
	}
	s.mu.Lock()
	if s.closed {
		s.mu.Unlock()
		return errors.New("verif: case is over")
	}
	s.calls++
	s.nStat[tAny]++
	if present {
		s.nStat[tPres]++
	}
	hit := false
	if s.armed && (s.fault == fStatErr || s.fault == fStatErrAfter) {
		switch s.target {
		case tAny:
			hit = s.nStat[tAny] == s.k
		case tPres:
			hit = present && s.nStat[tPres] == s.k
		}
	}
	if hit {
		s.armed = false
	}
	s.mu.Unlock()
	if !hit {
		s.jitter()
		return s.inner.StatBlobs(ctx, blobs, fn)
	}
	if s.fault == fStatErrAfter {
		s.inner.StatBlobs(ctx, blobs, fn)
	}
	s.hold()
	s.fire(fmt.Sprintf("StatBlobs #%d (%s; blob present: %v)", s.k, s.target, present))
	return errInjected
}

func (s *faultStore) firedNow() (bool, string) {
	s.mu.Lock()
	defer s.mu.Unlock()
	return s.didFire, s.firedOn
}

// finish releases anything still waiting and makes late calls (upload goroutines the
// writer abandoned when it returned an error) no-ops, then empties the store:
// blobserver.GetHub keeps every storage that ever received a blob reachable.
func (s *faultStore) finish() {
	close(s.done)
	s.mu.Lock()
	s.closed = true
	s.mu.Unlock()
	emptyStore(s.inner)
}

func emptyStore(st *memory.Storage) {
	var refs []blob.Ref
	for _, rs := range st.BlobrefStrings() {
		if br, ok := blob.Parse(rs); ok {
			refs = append(refs, br)
		}
	}
	st.RemoveBlobs(context.Background(), refs)
}

var _ blobserver.StatReceiver = (*faultStore)(nil)

// ---------------------------------------------------------------- the source

// gatedSrc is a srcReader that can pause once, with data still to come, until the
// store has returned its injected failure, and that announces its EOF.
type gatedSrc struct {
	*srcReader
	waitAt  int // <0: never wait
	fired   <-chan struct{}
	eof     chan struct{}
	eofOnce sync.Once
	waited  bool
	waitTO  bool
}

func (g *gatedSrc) Read(p []byte) (int, error) {
	if g.waitAt >= 0 && !g.waited {
		if g.pos >= g.waitAt {
			g.waited = true
			select {
			case <-g.fired:
			case <-time.After(20 * time.Second):
				g.waitTO = true
			}
			// let the failed upload's goroutine hand its error over
			for i := 0; i < 20; i++ {
				runtime.Gosched()
			}
			time.Sleep(2 * time.Millisecond)
		} else if len(p) > g.waitAt-g.pos {
			p = p[:g.waitAt-g.pos]
		}
	}
	n, err := g.srcReader.Read(p)
	if err == io.EOF {
		g.eofOnce.Do(func() { close(g.eof) })
	}
	return n, err
}

// ---------------------------------------------------------------- jobs

func faultJobs(r *ev.Run) []job {
	type cfg struct{ fault, target, timing string }
	var cfgs []cfg
	for _, ft := range [][2]string{{fRecvErr, tChunk}, {fRecvErrAfter, tChunk}, {fStatErr, tAny}, {fStatErrAfter, tPres}} {
		for _, tm := range []string{tmNow, tmWait, tmHeld} {
			cfgs = append(cfgs, cfg{ft[0], ft[1], tm})
		}
	}
	cfgs = append(cfgs,
		cfg{fRecvErr, tBytes, tmNoTim}, cfg{fRecvErrAfter, tBytes, tmNoTim},
		cfg{fRecvErr, tFile, tmNoTim}, cfg{fRecvErrAfter, tFile, tmNoTim},
		cfg{fNone, tNoTarg, tmNoTim})
	pres := []string{preEmpty, preSubset, prePrefix, preOther, preSame}
	apis := []string{apiReader, apiFileMap, apiChunks}
	shapes := []string{"whole", "whole", "short", "half", "dataeof", "zeroreads"}

	var jobs []job
	rng := r.Rand("fault-cases")
	reps := r.Pick(2, 24)
	no := 0
	for rep := 0; rep < reps; rep++ {
		for ci, c := range cfgs {
			for pi, pre := range pres {
				switch {
				case pre == preSame && (c.fault == fRecvErr || c.fault == fRecvErrAfter):
					continue // nothing is ever received: the fault cannot be delivered
				case pre == preOther && (c.target == tChunk || c.target == tBytes):
					continue // every chunk and bytes blob is present already: nothing to fail
				case pre == preEmpty && c.fault == fStatErrAfter:
					continue // no present blob to stat (but for duplicate chunks)
				}
				no++
				fc := faultCase{
					CaseID: fmt.Sprintf("f%d;", no),
					Fault:  c.fault, Target: c.target, Timing: c.timing, Pre: pre,
					API:    apis[(rep+ci+pi)%len(apis)],
					Shape:  shapes[rng.Intn(len(shapes))],
					Jitter: rng.Intn(2) == 0,
				}
				switch k := rng.Intn(10); {
				case k < 6:
					fc.Content = "random"
				case k < 9:
					fc.Content = "engineered"
				default:
					fc.Content = "zeros"
				}
				// long enough for several chunks after an early failure; a few short ones
				fc.Length = mib + mib/2 + rng.Intn(2*mib+mib/2)
				if fc.Content == "zeros" {
					fc.Length = 3*mib + rng.Intn(3*mib) // 1 MiB chunks only
				}
				if (c.fault == fNone || c.target == tFile) && rng.Intn(3) == 0 {
					fc.Length = []int{0, 1, 64 * kib, 300 * kib, 700 * kib}[rng.Intn(5)]
				}
				jobs = append(jobs, job{id: fc.CaseID, weight: 3 * fc.Length / (256 * kib), fn: func() { runFault(r, fc) }})
			}
		}
	}
	return jobs
}

// ---------------------------------------------------------------- one case

type refBlob struct {
	ref   blob.Ref
	data  string
	class string
}

func runFault(r *ev.Run, fc faultCase) {
	rng := r.Rand("fault/" + fc.CaseID)
	var data []byte
	switch fc.Content {
	case "zeros":
		data = make([]byte, fc.Length)
	case "random":
		data = make([]byte, fc.Length)
		rng.Read(data)
	case "engineered":
		data, _, fc.Sub = engineered(fc.Length, rng)
	}
	ctx := context.Background()
	const name = "c15f.bin"
	modTime := time.Unix(1000000000+int64(rng.Intn(1<<28)), 0).UTC()
	describe := func() string {
		return fmt.Sprintf("file of %d bytes (%s %s) via %s, source reader %q, store prestored=%s, fault=%s at %s #%d, timing %s, jitter=%v: ",
			fc.Length, fc.Content, fc.Sub, fc.API, fc.Shape, fc.Pre, fc.Fault, fc.Target, fc.K, fc.Timing, fc.Jitter)
	}
	viol := func(sig, format string, a ...any) {
		r.Violation(sig, describe()+fmt.Sprintf(format, a...), fc)
	}

	// --- reference write into a fresh store: which blobs make up this file
	refStore := &memory.Storage{}
	defer emptyStore(refStore)
	refRef, err := schema.WriteFileFromReader(ctx, refStore, name, bytes.NewReader(data))
	r.Eval(1)
	if err != nil {
		viol("write-error/whole", "reference write into a fresh memory store: %v", err)
		return
	}
	refIn := &interp{get: func(ref string) ([]byte, bool) {
		br, ok := blob.Parse(ref)
		if !ok {
			return nil, false
		}
		s, ok := refStore.BlobContents(br)
		return []byte(s), ok
	}}
	refDen := refIn.denote(refRef.String(), "file", 1)
	if len(refIn.problems) > 0 || refIn.loose > 0 || !bytes.Equal(refDen, data) {
		// part 1 judges this; without a sound reference the fault cannot be aimed
		for _, p := range refIn.problems {
			viol(p.sig, "reference write: %s", p.what)
		}
		if len(refIn.problems) == 0 && !bytes.Equal(refDen, data) {
			viol("stored-tree/whole", "reference write: the stored tree differs from the source")
		}
		return
	}
	var refBlobs []refBlob
	for _, rs := range refStore.BlobrefStrings() {
		br := blob.MustParse(rs)
		s, _ := refStore.BlobContents(br)
		refBlobs = append(refBlobs, refBlob{br, s, classifyBlob([]byte(s))})
	}

	// --- the target store and what it already holds
	inner := &memory.Storage{}
	put := func(b refBlob) {
		inner.ReceiveBlob(ctx, b.ref, strings.NewReader(b.data))
	}
	pre := map[string]bool{}
	switch fc.Pre {
	case preSame:
		for _, b := range refBlobs {
			put(b)
			pre[b.ref.String()] = true
		}
	case preOther:
		for _, b := range refBlobs {
			if b.class != tFile {
				put(b)
				pre[b.ref.String()] = true
			}
		}
	case preSubset:
		for _, b := range refBlobs {
			if rng.Intn(2) == 0 {
				put(b)
				pre[b.ref.String()] = true
			}
		}
	case prePrefix:
		if n := len(refIn.chunks); n > 1 {
			m := 1 + rng.Intn(n-1)
			for _, c := range refIn.chunks[:m] {
				if c.ref == "" || pre[c.ref] {
					continue
				}
				br := blob.MustParse(c.ref)
				s, _ := refStore.BlobContents(br)
				put(refBlob{br, s, tChunk})
				pre[c.ref] = true
			}
		}
	}
	nPre := inner.NumBlobs()

	// --- aim the fault: k and, for tmWait, the source offset at which k matching
	// calls are certain to have been started (an upload goroutine is started at each
	// chunk boundary; it stats once and, if the blob is absent, receives once).
	fc.K, fc.WaitAt = 1, -1
	{
		const tail = 384 * kib // data that must still be undelivered when the source pauses
		pos, J := 0, 0
		distinctAbsent, presentStats := 0, 0
		seen := map[string]bool{}
		bestPos, bestRecv, bestStat, bestPres := 0, 0, 0, 0
		for j, c := range refIn.chunks {
			pos += c.size
			if pos > len(data)-tail || j >= 8 {
				break
			}
			J = j + 1
			if c.ref != "" {
				if pre[c.ref] {
					presentStats++
				} else if !seen[c.ref] {
					seen[c.ref] = true
					distinctAbsent++
				}
			}
			bestPos, bestRecv, bestStat, bestPres = pos, distinctAbsent, J, presentStats
		}
		guaranteed := 0
		switch fc.Target {
		case tChunk:
			guaranteed = bestRecv
		case tAny:
			guaranteed = bestStat
		case tPres:
			guaranteed = bestPres
		case tBytes:
			absent := 0 // "bytes" schema blobs that will have to be received
			for _, b := range refBlobs {
				if b.class == tBytes && !pre[b.ref.String()] {
					absent++
				}
			}
			fc.K = 1 + rng.Intn(max(1, absent))
		}
		if fc.Target == tChunk || fc.Target == tAny || fc.Target == tPres {
			if guaranteed > 0 {
				fc.K = 1 + rng.Intn(guaranteed)
				if fc.Timing == tmWait {
					fc.WaitAt = bestPos
				}
			} else {
				fc.K = 1 + rng.Intn(3)
			}
		}
	}

	var jrng *rand.Rand
	if fc.Jitter {
		jrng = rand.New(rand.NewSource(rng.Int63()))
	}
	st := newFaultStore(inner, &fc, jrng)
	defer st.finish()
	src := &gatedSrc{
		srcReader: &srcReader{data: data, shape: fc.Shape, rng: rng},
		waitAt:    fc.WaitAt, fired: st.fired, eof: st.srcEOF,
	}

	r.Count("fault_cases", 1)
	r.Note("fault_kind", fc.Fault)
	r.Note("fault_target", fc.Target)
	r.Note("fault_timing", fc.Timing)
	r.Note("fault_prestore", fc.Pre)
	r.Note("fault_api", fc.API)
	r.Note("fault_cells", fc.Fault+"@"+fc.Target+"/"+fc.Timing+"/"+fc.Pre+"/"+fc.API)
	if fc.Jitter {
		r.Note("fault_events", "store-call-jitter")
	}

	// --- attempt 1: against the faulty store
	res, ok := doWrite(ctx, r, fc, st, inner, name, modTime, src)
	if !ok {
		r.Inconclusive(fmt.Sprintf("%s did not return within 5 min (case %s)", fc.API, fc.CaseID))
		return
	}
	if res.panicked != "" {
		viol("panic/faulted-write", "%s panicked: %s", fc.API, res.panicked)
		return
	}
	r.Eval(1)
	fired, firedOn := st.firedNow()
	if src.waitTO {
		r.Note("fault_events", "source-wait-gave-up(untargeted)")
	}
	if st.heldTO {
		r.Note("fault_events", "held-call-gave-up(untargeted)")
	}
	if fired {
		r.Count("fault_fired", 1)
		r.Note("fault_fired", fc.Fault+"@"+fc.Target)
		r.Distinct(fmt.Sprintf("fault/%s/%s/%s/%s/%s/%d/%d", fc.Fault, fc.Target, fc.Timing, fc.Pre, fc.API, fc.Length, fc.K))
	} else if fc.Fault != fNone {
		r.Note("fault_events", "fault-not-reached")
	} else if nPre > 0 {
		r.Distinct(fmt.Sprintf("prestored/%s/%s/%d/%s", fc.Pre, fc.API, fc.Length, fc.CaseID))
	}
	if nPre > 0 {
		r.Count("fault_prestored_blobs", nPre)
	}

	prefix := "no-fault"
	if fired {
		prefix = "after-store-fault"
	}
	if res.err == nil {
		if src.pos != len(data) {
			viol(prefix+"/source-not-consumed", "%s returned a nil error after consuming %d of %d source bytes (injected: %s)", fc.API, src.pos, len(data), firedOn)
		}
		n := verifyWritten(ctx, r, inner, res, data, func(sig, format string, a ...any) {
			viol(prefix+"/"+sig, "%s returned a nil error (injected: %s) but "+format, append([]any{fc.API, firedOn}, a...)...)
		})
		if n == 0 {
			if fired {
				r.Note("fault_outcome", "nil-error-after-fault,complete")
			} else {
				r.Note("fault_outcome", "nil-error-no-fault,complete")
			}
		}
		return
	}
	if !fired {
		viol("write-error/"+fc.Shape, "%s failed although no fault was injected (store prestored=%s): %v", fc.API, fc.Pre, res.err)
		return
	}
	if src.pos < len(data) {
		r.Note("fault_outcome", "error-before-source-eof")
	} else {
		r.Note("fault_outcome", "error-after-source-eof")
	}
	if !errors.Is(res.err, errInjected) {
		r.Note("fault_events", "error-is-not-the-injected-one")
	}

	// --- attempt 2: the same stream again, same store (healthy now, partly filled)
	r.Count("fault_retries", 1)
	leftover := inner.NumBlobs()
	src2 := &gatedSrc{srcReader: &srcReader{data: data, shape: fc.Shape, rng: rng}, waitAt: -1, eof: make(chan struct{})}
	res2, ok := doWrite(ctx, r, fc, st, inner, name, modTime, src2)
	if !ok {
		r.Inconclusive(fmt.Sprintf("%s (retry) did not return within 5 min (case %s)", fc.API, fc.CaseID))
		return
	}
	if res2.panicked != "" {
		viol("panic/faulted-write", "%s (retry) panicked: %s", fc.API, res2.panicked)
		return
	}
	r.Eval(1)
	if res2.err != nil {
		viol("retry-after-fault/write-error", "after a failed write (%v) left %d blobs behind, writing the same stream again into the healthy store failed: %v", res.err, leftover, res2.err)
		return
	}
	if src2.pos != len(data) {
		viol("retry-after-fault/source-not-consumed", "retry consumed %d of %d source bytes", src2.pos, len(data))
	}
	n := verifyWritten(ctx, r, inner, res2, data, func(sig, format string, a ...any) {
		viol("retry-after-fault/"+sig, "after a failed write (%v; injected: %s) the retry returned a nil error but "+format, append([]any{res.err, firedOn}, a...)...)
	})
	if n == 0 {
		r.Note("fault_outcome", "retry-complete")
		if leftover > nPre {
			r.Note("fault_events", "retry-over-partial-leftovers")
		}
	}
	if atomic.AddInt32(&faultSamples, 1) <= 2 {
		r.Sample(map[string]any{"kind": "faulted-write", "case": fc, "injected": firedOn, "error": res.err.Error(),
			"source_bytes_consumed_at_error": src.pos, "blobs_left_behind": leftover - nPre})
	}
}

var faultSamples int32

type writeResult struct {
	ref      blob.Ref
	err      error
	panicked string
	// WriteFileChunks only: the file schema the caller is to upload, and a problem
	// list taken at the moment WriteFileChunks returned
	fileJSON   string
	atReturn   []problem
	atReturnOK bool
}

// doWrite runs one entry point.  For WriteFileChunks it also plays the caller: checks
// the parts at return time, then uploads file.Blob() straight into the inner store.
func doWrite(ctx context.Context, r *ev.Run, fc faultCase, st *faultStore, inner *memory.Storage, name string, modTime time.Time, src io.Reader) (res writeResult, ok bool) {
	ok = ev.WithTimeout(5*time.Minute, func() {
		defer func() {
			if e := recover(); e != nil {
				buf := make([]byte, 4096)
				buf = buf[:runtime.Stack(buf, false)]
				res.panicked = fmt.Sprintf("%v\n%s", e, buf)
			}
		}()
		switch fc.API {
		case apiReader:
			res.ref, res.err = schema.WriteFileFromReader(ctx, st, name, src)
		case apiFileMap:
			m := schema.NewFileMap(name)
			m.SetModTime(modTime)
			res.ref, res.err = schema.WriteFileMap(ctx, st, m, src)
		case apiChunks:
			m := schema.NewFileMap(name)
			m.SetModTime(modTime)
			res.err = schema.WriteFileChunks(ctx, st, m, src)
			if res.err != nil {
				return
			}
			res.fileJSON = m.Blob().JSON()
			res.ref = blob.RefFromString(res.fileJSON)
			// "every blob the file schema references has been stored": now, not later
			in := &interp{get: storeGetter(inner, res.ref.String(), res.fileJSON)}
			in.denote(res.ref.String(), "file", 1)
			res.atReturn, res.atReturnOK = in.problems, true
			if _, err := inner.ReceiveBlob(ctx, res.ref, strings.NewReader(res.fileJSON)); err != nil {
				res.err = fmt.Errorf("harness: uploading file.Blob(): %w", err)
			}
		}
	})
	return
}

func storeGetter(st *memory.Storage, extraRef, extra string) func(string) ([]byte, bool) {
	return func(ref string) ([]byte, bool) {
		if extraRef != "" && ref == extraRef {
			return []byte(extra), true
		}
		br, ok := blob.Parse(ref)
		if !ok {
			return nil, false
		}
		s, ok := st.BlobContents(br)
		return []byte(s), ok
	}
}

// verifyWritten judges a write that returned a nil error; it returns the number of
// violations it reported.
func verifyWritten(ctx context.Context, r *ev.Run, st *memory.Storage, res writeResult, data []byte, viol func(sig, format string, a ...any)) int {
	bad := 0
	v := func(sig, format string, a ...any) {
		bad++
		viol(sig, format, a...)
	}
	if res.atReturnOK {
		r.Eval(1)
		for _, p := range res.atReturn {
			v("parts-at-return/"+p.sig, "when WriteFileChunks returned: %s", p.what)
		}
	}
	in := &interp{get: storeGetter(st, "", "")}
	den := in.denote(res.ref.String(), "file", 1)
	r.Eval(1 + in.nSchema + len(in.chunks))
	for _, p := range in.problems {
		v(p.sig, "%s", p.what)
	}
	if len(in.problems) == 0 {
		if len(den) != len(data) {
			v("size/tree-length", "the stored file tree %s denotes %d bytes, the source had %d", res.ref, len(den), len(data))
		} else if d := firstDiff(den, data); d >= 0 {
			v("stored-tree", "the stored file tree differs from the source at offset %d", d)
		}
	}
	fr, err := schema.NewFileReader(ctx, st, res.ref)
	r.Eval(1)
	if err != nil {
		v("open-error", "NewFileReader(%s): %v", res.ref, err)
		return bad
	}
	defer fr.Close()
	r.Eval(2)
	if fr.Size() != int64(len(data)) {
		v("size/filereader-size", "FileReader.Size()=%d, the source had %d bytes", fr.Size(), len(data))
	}
	got, err := io.ReadAll(fr)
	if err != nil {
		v("roundtrip", "reading the file back: %v after %d bytes", err, len(got))
	} else if d := firstDiff(got, data); d >= 0 {
		v("roundtrip", "read back %d bytes, wrote %d; first difference at offset %d", len(got), len(data), d)
	}
	missing := 0
	ferr := fr.ForeachChunk(ctx, func(_ []blob.Ref, p schema.BytesPart) error {
		if p.BlobRef.Valid() {
			if _, ok := st.BlobContents(p.BlobRef); !ok {
				missing++
			}
		}
		return nil
	})
	r.Eval(1)
	if ferr != nil {
		v("foreachchunk/error", "ForeachChunk: %v", ferr)
	} else if missing > 0 {
		v("missing-blob/data", "ForeachChunk names %d chunk blobs that are not stored", missing)
	}
	return bad
}
