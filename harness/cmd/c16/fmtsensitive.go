package main

// Unsigned objects whose keys and values carry FORMAT-SENSITIVE content (rule 1).
//
// "Any valid unsigned schema object ... any further keys, unicode, nesting" includes text that
// means something to a formatting or templating layer between the caller's bytes and the emitted
// document: printf verbs ("%d", "%s", "%20n", "%[2]*d"), "%%", a trailing or lone '%', URL
// escapes ("%20", "%2F"), printf's own error markers ("%!s(MISSING)"), backslash sequences kept
// as text ("\\n", "\\u0025"), '%' written as the JSON escape \u0025, shell / template markers,
// quotes, and very long keys and values.  The signed document is T + ',"camliSig":"' + S + '"}\n'
// for exactly the payload T that was handed in, it verifies, and it exposes every field unchanged
// (checkSignOutput); a signer that lets the payload pass through a format string, a template or a
// re-encoding emits other bytes than it signed.
//
// The objects go through every signing entry point the check drives elsewhere: hw.Signer,
// schema.Signer.SignJSON, Builder.SignAt / Builder.Sign, SignRequest templates (caching entity
// fetcher, SecretKeyringPath), rings holding both keys (SecretKeyringPath, FileEntityFetcher),
// the jsonsign handler (POST camli/sig/sign, Handler.Sign) and the default secret ring.
// The documents are not appended to c.docs (ids fmt<n>), so earlier case ids are unchanged.

import (
	"fmt"
	"os"
	"path/filepath"
	"strings"
	"time"

	"perkeep.org/pkg/blob"
	"perkeep.org/pkg/jsonsign"
	"perkeep.org/pkg/schema"

	"verif.local/harness/ev"
	"verif.local/harness/hw"
)

type fmtToken struct {
	class string
	s     string
}

var fmtTokens = []fmtToken{
	{"printf-verb", "%d"},
	{"printf-verb", "progress: %d of %s done"},
	{"percent-percent", "%%"},
	{"percent-trailing", "100%"},
	{"url-escape", "file%20name%2Fwith.jpg"},
	{"printf-width-verb", "%20n"},
	{"printf-error-marker", "%!"},
	{"printf-verb", "%s"},
	{"printf-indexed", "%[1]s and %[2]*d"},
	{"printf-error-marker", "%!s(MISSING)"},
	{"percent-lone", "%"},
	{"printf-verb", "%v%+v%#v%T%q%x%X%c%U%p%e%g%t%b%o"},
	{"percent-percent", "50%% off, then %%s"},
	{"printf-width-verb", "%-08.3f|%+.2e|%*d|%6.2f%%"},
	{"backslash-text", `C:\new\table\%s\u0025`},
	{"backslash-text", `\n\t\\ \" \x25 \045`},
	{"quote", `"%s"='%d'`},
	{"shell-template", "${HOME} $(id) `x` {{.Sig}} {0} #{x} <%= y %>"},
	{"percent-unicode", "\u00e9%\u65e5%s\U0001F600%d"},
	{"percent-trailing", "%d%"},
	{"url-escape", "https://example.com/a%2Fb?q=%25&x=%E2%82%AC"},
	{"percent-control", "%\n%\t%\x01d"},
	{"percent-separator", `%s,"camliSig":"%s"}`},
}

// fmtClassesRequired are the token classes every complete run must have signed.
var fmtClassesRequired = []string{"printf-verb", "percent-percent", "percent-trailing", "percent-lone", "url-escape", "printf-width-verb", "printf-error-marker",
	"printf-indexed", "backslash-text", "quote", "shell-template", "percent-unicode", "percent-control", "percent-separator",
	"percent-as-json-escape", "key", "nested", "long-value", "long-key"}

const (
	fpHWSigner = iota
	fpSignJSON
	fpSignAt
	fpBuilderSign
	fpTemplate
	fpTemplRing
	fpRingPathBoth
	fpEntityFetcherBoth
	fpHelperPost
	fpHelperSign
	fpDefaultRing
	fpKinds
)

var fpNames = []string{"hw.Signer.SignJSON", "schema.Signer.SignJSON", "Builder.SignAt", "Builder.Sign", "SignRequest template(CachingEntityFetcher)",
	"SignRequest template(SecretKeyringPath)", "SecretKeyringPath(ring holding both keys)", "EntityFetcher(ring holding both keys)",
	"signhandler:POST camli/sig/sign", "signhandler:Handler.Sign", "SignRequest(default secret ring)"}

// fmtDoc builds the n-th unsigned object of the family and the token classes it carries.
func (c *checker) fmtDoc(g *docGen, n int, k *keyInfo) (string, []string) {
	rng := g.rng
	tok := func(i int) fmtToken { return fmtTokens[(n*5+i)%len(fmtTokens)] }
	seen := map[string]bool{}
	var classes []string
	note := func(cl string) {
		if !seen[cl] {
			seen[cl] = true
			classes = append(classes, cl)
		}
	}
	top := &jv{kind: jObj}
	add := func(key string, v *jv) { top.keys = append(top.keys, key); top.vals = append(top.vals, v) }
	add("camliVersion", raw("1"))
	add("camliSigner", str(k.ref, escMinimal))
	add("camliType", str(g.pick(ctypes), escMinimal))
	// values
	for i := 0; i < 3; i++ {
		t := tok(i)
		add(fmt.Sprintf("%s%d", g.pick(words), i), str(t.s, rng.Intn(escModes)))
		note(t.class)
	}
	// keys (made unique by a counter that is itself behind a '%')
	for i := 3; i < 5; i++ {
		t := tok(i)
		add(fmt.Sprintf("%s%%%d", t.s, i), g.scalar())
		note(t.class)
		note("key")
	}
	// nested, as key and as value, and in an array
	t5, t6, t7 := tok(5), tok(6), tok(7)
	add("nest%ed", &jv{kind: jObj, keys: []string{t5.s, "list"}, vals: []*jv{
		{kind: jObj, keys: []string{"deep%s"}, vals: []*jv{str(t6.s+g.pick(plain), rng.Intn(escModes))}},
		{kind: jArr, vals: []*jv{str(t7.s, escMinimal), g.scalar(), {kind: jArr, vals: []*jv{str(t5.s+t6.s, escSolidus)}}}},
	}})
	note(t5.class)
	note(t6.class)
	note(t7.class)
	note("nested")
	// '%' written as a JSON escape: no '%' byte for these characters in the payload, "%d" as the value
	if n%2 == 0 {
		add("esc\\u0025aped", raw(`"\u0025d \u0025s 100\u0025 \u0025\u0025"`))
		note("percent-as-json-escape")
	}
	if n%4 == 1 {
		unit := tok(8).s + " "
		add("long", str(strings.Repeat(unit, 1+[]int{3000, 48 << 10, 700}[n/4%3]/len(unit)), escMinimal))
		note("long-value")
	}
	if n%4 == 3 {
		unit := tok(9).s + "/"
		add(strings.Repeat(unit, 1+[]int{2048, 300, 9000}[n/4%3]/len(unit)), str(tok(10).s, escMinimal))
		note("long-key")
	}
	rng.Shuffle(len(top.keys), func(i, j int) {
		top.keys[i], top.keys[j] = top.keys[j], top.keys[i]
		top.vals[i], top.vals[j] = top.vals[j], top.vals[i]
	})
	e := &emitter{style: n % styles, rng: rng, indent: []string{" ", "  ", "\t", "    "}[rng.Intn(4)]}
	e.emit(top, 0, false)
	j := e.b.String()
	if n%5 == 2 {
		j += []string{"\n", " ", "\r\n\t "}[rng.Intn(3)]
	}
	return j, classes
}

func (c *checker) formatSensitiveDocs(years []int) {
	r := c.r
	if c.only != "" && !strings.HasPrefix(c.only, "fmt") {
		return
	}
	rng := r.Rand("format-sensitive-content")
	g := &docGen{rng: rng}
	env, err := c.concSetup()
	if err != nil {
		r.Inconclusive("format-sensitive family: cannot set up the signing objects: " + err.Error())
		return
	}
	dir := ev.Scratch("c16-fmt-default-ring")
	defer os.RemoveAll(dir)
	nDocs := r.Pick(3*fpKinds, 12*fpKinds)
	for n := 0; n < nDocs; n++ {
		id := fmt.Sprintf("fmt%d", n)
		k := c.keys[(n/fpKinds+n)%2]
		j, tcl := c.fmtDoc(g, n, k)
		sigTime := hw.T(years[n%len(years)], rng.Intn(365*86400))
		attr, val := fmtTokens[(n*3)%len(fmtTokens)], fmtTokens[(n*3+1+n/fpKinds)%len(fmtTokens)]
		salt := rng.Intn(1 << 20)
		if c.only != "" && c.only != id {
			continue
		}
		path := n % fpKinds
		if (path == fpRingPathBoth || path == fpEntityFetcherBoth) && len(c.multiRings) == 0 {
			path = fpHWSigner
		}
		if path == fpHWSigner && k.generated {
			path = fpSignJSON
		}
		var bb *schema.Builder
		switch path {
		case fpSignAt, fpBuilderSign, fpHelperSign:
			// the builder's own serialization: the format-sensitive text is the attribute and its value
			pn := blob.RefFromString(fmt.Sprintf("c16 fmt permanode %d", n))
			bb = schema.NewSetAttributeClaim(pn, attr.s, val.s+fmt.Sprintf(" %%%d", salt))
			if path == fpHelperSign {
				bb.SetClaimDate(sigTime)
			}
			tcl = []string{attr.class, val.class}
		}
		wit := map[string]any{"case_id": id, "unsigned": j, "signing_path": fpNames[path], "signing_key": k.name, "content_classes": tcl}
		var signed string
		var serr error
		timed := true
		if r.Guard("Sign", wit, func() {
			switch path {
			case fpHWSigner:
				signed, serr = c.signAs(k, k.ref, j, sigTime)
			case fpSignJSON:
				signed, serr = env.signers[k.idx].SignJSON(c.ctx, j, sigTime)
			case fpSignAt:
				signed, serr = bb.SignAt(c.ctx, env.signers[k.idx], sigTime)
			case fpBuilderSign:
				timed = false
				signed, serr = bb.Sign(c.ctx, env.signers[k.idx])
			case fpTemplate, fpTemplRing:
				sr := *env.tmpl[k.idx]
				if path == fpTemplRing {
					sr = *env.tmplR[k.idx]
				}
				sr.UnsignedJSON, sr.SignatureTime = j, sigTime
				signed, serr = sr.Sign(c.ctx)
			case fpRingPathBoth:
				signed, serr = (&jsonsign.SignRequest{UnsignedJSON: j, Fetcher: c.fetcher, ServerMode: true, SecretKeyringPath: c.multiRings[n%len(c.multiRings)], SignatureTime: sigTime}).Sign(c.ctx)
			case fpEntityFetcherBoth:
				signed, serr = (&jsonsign.SignRequest{UnsignedJSON: j, Fetcher: c.fetcher, ServerMode: true,
					EntityFetcher: &jsonsign.FileEntityFetcher{File: c.multiRings[n%len(c.multiRings)]}, SignatureTime: sigTime}).Sign(c.ctx)
			case fpHelperPost:
				timed = false
				code, body := sigPost(env.helpers[k.idx], "camli/sig/sign", "json", j)
				if code != 200 {
					serr = fmt.Errorf("HTTP %d %s", code, truncateStr(body, 200))
				}
				signed = body
			case fpHelperSign:
				signed, serr = env.helpers[k.idx].Sign(c.ctx, bb)
			case fpDefaultRing:
				withEnv(map[string]string{"CAMLI_SECRET_RING": k.ring, "CAMLI_CONFIG_DIR": filepath.Join(dir, "no-such-config-dir")}, func() {
					signed, serr = (&jsonsign.SignRequest{UnsignedJSON: j, Fetcher: c.fetcher, ServerMode: true, SignatureTime: sigTime}).Sign(c.ctx)
				})
			}
			if bb != nil {
				// the object that was signed: the builder after the call set camliSigner (and the claim date)
				uj, jerr := bb.JSON()
				if jerr != nil && serr == nil {
					serr = jerr
				}
				j = uj
				wit["unsigned"] = j
			}
		}) {
			continue
		}
		r.Eval(1)
		r.Note("format_sensitive_signing_paths", fpNames[path])
		r.Count("format_sensitive_documents", 1)
		if serr != nil {
			r.Violation("sign-output/error/format-sensitive-content", fmt.Sprintf("Sign (%s) refused a valid unsigned object whose keys and values contain format-sensitive text (%s): %v", fpNames[path], strings.Join(tcl, ", "), serr), wit)
			continue
		}
		if !strings.Contains(j, "%") {
			r.Inconclusive(id + ": the unsigned object of the format-sensitive family contains no '%' byte")
			continue
		}
		_, packet, ok := c.checkSignOutput(id, k, true, j, signed)
		if !ok {
			continue
		}
		if timed {
			c.checkSigTime("sign-output/signature-time", id, packet, sigTime.Truncate(time.Second), map[string]any{"case_id": id, "unsigned": j, "signed": signed, "signing_path": fpNames[path]})
		}
		for _, cl := range tcl {
			r.Note("format_sensitive_content", cl)
		}
		r.Note("format_sensitive_signed", fpNames[path])
		r.Count("format_sensitive_percent_bytes", strings.Count(j, "%"))
		r.Count("documents", 1)
		r.Count("document_bytes_total", len(signed))
		r.Distinct("valid:" + signed)
		if n < 3 {
			r.Sample(map[string]any{"kind": "document with format-sensitive content", "case_id": id, "signing_path": fpNames[path], "content_classes": tcl, "unsigned": truncateStr(j, 1500), "signed": truncateStr(signed, 2200)})
		}
	}
}
