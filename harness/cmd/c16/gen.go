package main

// Seeded generator of unsigned schema-like JSON documents with its own
// serializer, so that whitespace, escapes and key order are under the
// harness's control (the signed payload is a byte string, not a value).

import (
	"fmt"
	"math/rand"
	"strings"
	"unicode/utf8"
)

type jkind int

const (
	jObj jkind = iota
	jArr
	jStr
	jRaw // number, literal, or pre-serialized JSON emitted verbatim
)

type jv struct {
	kind  jkind
	keys  []string
	vals  []*jv
	s     string
	esc   int  // escape mode for jStr
	tight bool // emit this subtree without any whitespace
}

func str(s string, esc int) *jv { return &jv{kind: jStr, s: s, esc: esc} }
func raw(s string) *jv          { return &jv{kind: jRaw, s: s} }

const (
	escMinimal = iota // only what JSON requires
	escASCII          // everything non-ASCII as \uXXXX (surrogate pairs)
	escSolidus        // also "\/", and quotes as \u0022
	escModes
)

func quote(s string, mode int) string {
	var b strings.Builder
	b.WriteByte('"')
	for _, r := range s {
		switch {
		case r == '"':
			if mode == escSolidus {
				b.WriteString(`\u0022`)
			} else {
				b.WriteString(`\"`)
			}
		case r == '\\':
			b.WriteString(`\\`)
		case r == '\n':
			b.WriteString(`\n`)
		case r == '\t':
			b.WriteString(`\t`)
		case r == '\r':
			b.WriteString(`\r`)
		case r < 0x20:
			fmt.Fprintf(&b, `\u%04x`, r)
		case r == '/' && mode == escSolidus:
			b.WriteString(`\/`)
		case r >= 0x80 && mode == escASCII:
			if r >= 0x10000 {
				r -= 0x10000
				fmt.Fprintf(&b, `\u%04X\u%04x`, 0xD800+(r>>10), 0xDC00+(r&0x3ff))
			} else {
				fmt.Fprintf(&b, `\u%04x`, r)
			}
		default:
			b.WriteRune(r)
		}
	}
	b.WriteByte('"')
	return b.String()
}

const (
	styleCompact = iota
	styleIndent
	styleOdd
	styles
)

var styleNames = []string{"compact", "indented", "odd-whitespace"}

type emitter struct {
	b      strings.Builder
	style  int
	indent string
	rng    *rand.Rand
}

var oddWS = []string{"", "", " ", "  ", "\t", "\n", "\r\n", " \n\t", "\n\n", "\r"}

func (e *emitter) ws(depth int, newline bool, tight bool) {
	if tight {
		return
	}
	switch e.style {
	case styleIndent:
		if newline {
			e.b.WriteByte('\n')
			for i := 0; i < depth; i++ {
				e.b.WriteString(e.indent)
			}
		}
	case styleOdd:
		e.b.WriteString(oddWS[e.rng.Intn(len(oddWS))])
	}
}

func (e *emitter) emit(v *jv, depth int, tight bool) {
	tight = tight || v.tight
	switch v.kind {
	case jStr:
		e.b.WriteString(quote(v.s, v.esc))
	case jRaw:
		e.b.WriteString(v.s)
	case jArr:
		e.b.WriteByte('[')
		for i, el := range v.vals {
			if i > 0 {
				e.b.WriteByte(',')
			}
			e.ws(depth+1, true, tight)
			e.emit(el, depth+1, tight)
		}
		if len(v.vals) > 0 {
			e.ws(depth, true, tight)
		}
		e.b.WriteByte(']')
	case jObj:
		e.b.WriteByte('{')
		for i, k := range v.keys {
			if i > 0 {
				e.ws(depth+1, false, tight) // odd style: whitespace before the comma too
				e.b.WriteByte(',')
			}
			e.ws(depth+1, true, tight)
			e.b.WriteString(quote(k, escMinimal))
			if e.style == styleOdd {
				e.ws(0, false, tight)
			}
			e.b.WriteByte(':')
			if e.style == styleIndent && !tight {
				e.b.WriteByte(' ')
			}
			e.ws(0, false, tight)
			e.emit(v.vals[i], depth+1, tight)
		}
		if len(v.keys) > 0 {
			e.ws(depth, true, tight)
		}
		e.b.WriteByte('}')
	}
}

var (
	words   = []string{"title", "tag", "content", "camliPath:x", "note", "lat", "description", "a b", "k\"q", "xs", "camliMember", "url"}
	uniStrs = []string{"h\u00e9llo w\u00f6rld", "\u65e5\u672c\u8a9e\u306e\u30c6\u30ad\u30b9\u30c8", "emoji \U0001F600\U0001F389 pair", "\u0395\u03bb\u03bb\u03b7\u03bd\u03b9\u03ba\u03ac", "\u05e2\u05d1\u05e8\u05d9\u05ea", "line\u2028sep", "combine\u0301", "nbsp\u00a0end", "\ufeffbom"}
	plain   = []string{"", "x", "hello", "2011-01-02T03:04:05Z", "sha224-0123456789abcdef", "a/b/c", "tab\there", "nl\nthere", "back\\slash", "quote\"inside", "ctl\x01\x1f", "}{][,:", "true", "null"}
	numbers = []string{"0", "-1", "7", "3.25", "1e10", "1E-3", "12345678901234567890", "-0", "1.0", "1234567", "0.000001"}
	ctypes  = []string{"permanode", "claim", "file", "bytes", "static-set", "directory", "share"}
	// values that look like the signature separator once serialized (quotes get escaped)
	lookalikes = []string{`,"camliSig":"`, `x,"camliSig":"wsBcBAABCAAQBQJ"}`, `","camliSig":"AAAA=BBBB"}` + "\n", `,"camliSig":`, `"camliSig":"`}
)

var mixedAlphabet = []rune("abcXYZ019 _-+/=\u00e9\u65e5\U0001F600\"\\,:{}")

type docGen struct {
	rng *rand.Rand
}

func (g *docGen) pick(l []string) string { return l[g.rng.Intn(len(l))] }

func (g *docGen) scalar() *jv {
	switch g.rng.Intn(8) {
	case 0, 1:
		return str(g.pick(plain), g.rng.Intn(escModes))
	case 2, 3:
		return str(g.pick(uniStrs)+g.pick(plain), g.rng.Intn(escModes))
	case 4, 5:
		return raw(g.pick(numbers))
	case 6:
		return raw([]string{"true", "false", "null"}[g.rng.Intn(3)])
	default:
		// random short string over a mixed alphabet
		n := 1 + g.rng.Intn(12)
		var b strings.Builder
		for i := 0; i < n; i++ {
			b.WriteRune(mixedAlphabet[g.rng.Intn(len(mixedAlphabet))])
		}
		return str(b.String(), g.rng.Intn(escModes))
	}
}

func (g *docGen) key(i int) string {
	base := g.pick(words)
	if g.rng.Intn(4) == 0 {
		base = g.pick(uniStrs)
	}
	return fmt.Sprintf("%s%d", base, i) // unique within its object
}

func (g *docGen) value(depth int) *jv {
	if depth >= 3 || g.rng.Intn(3) > 0 {
		return g.scalar()
	}
	if g.rng.Intn(2) == 0 {
		a := &jv{kind: jArr}
		for i, n := 0, g.rng.Intn(4); i < n; i++ {
			a.vals = append(a.vals, g.value(depth+1))
		}
		return a
	}
	o := &jv{kind: jObj}
	for i, n := 0, g.rng.Intn(4); i < n; i++ {
		o.keys = append(o.keys, g.key(i))
		o.vals = append(o.vals, g.value(depth+1))
	}
	return o
}

type docSpec struct {
	style       int
	rawLook     bool   // nested object containing the raw 13-byte separator
	embedSigned string // a complete signed document embedded as a nested value ("" = none)
	leadWS      bool
	trailWS     bool
	wsBeforeEnd bool
	signerRef   string
	dups        []dupKey // further top-level keys that are case variants of reserved keys (casekeys.go)
}

// generate returns the unsigned JSON text J and the features it exhibits.
func (g *docGen) generate(sp docSpec) (string, []string) {
	feats := []string{styleNames[sp.style]}
	top := &jv{kind: jObj}
	add := func(k string, v *jv) { top.keys = append(top.keys, k); top.vals = append(top.vals, v) }
	add("camliVersion", raw("1"))
	add("camliSigner", str(sp.signerRef, escMinimal))
	add("camliType", str(g.pick(ctypes), escMinimal))
	// always: one unicode value, one nested value, one escaped look-alike
	add(g.key(3), str(g.pick(uniStrs), g.rng.Intn(escModes)))
	nest := &jv{kind: jObj, keys: []string{"inner", "list"}, vals: []*jv{
		{kind: jObj, keys: []string{"deep"}, vals: []*jv{g.scalar()}},
		{kind: jArr, vals: []*jv{g.scalar(), g.scalar(), {kind: jArr, vals: []*jv{g.scalar()}}}},
	}}
	add(g.key(4), nest)
	add(g.key(5), str(g.pick(lookalikes)+g.pick(plain), []int{escMinimal, escSolidus}[g.rng.Intn(2)]))
	feats = append(feats, "unicode", "nesting", "lookalike-escaped")
	if sp.rawLook {
		add(g.key(6), &jv{kind: jObj, tight: true,
			keys: []string{"a", "camliSig"},
			vals: []*jv{g.scalar(), str("wsBcBAABCAAQBQJKs1z/CRAxxxxxxxxx"+g.pick([]string{"", "=", "==AbCd"}), escMinimal)}})
		feats = append(feats, "lookalike-raw")
	}
	if sp.embedSigned != "" {
		add(g.key(7), raw(strings.TrimRight(sp.embedSigned, "\n")))
		feats = append(feats, "embedded-signed-doc")
	}
	for i, n := 0, 1+g.rng.Intn(4); i < n; i++ {
		add(g.key(8+i), g.value(0))
	}
	g.rng.Shuffle(len(top.keys), func(i, j int) {
		top.keys[i], top.keys[j] = top.keys[j], top.keys[i]
		top.vals[i], top.vals[j] = top.vals[j], top.vals[i]
	})
	if len(sp.dups) > 0 {
		insertDups(top, sp.dups, g.rng)
		feats = append(feats, "case-variant-keys")
	}
	switch top.keys[len(top.keys)-1] {
	case "camliSigner":
		feats = append(feats, "signer-last")
	}
	if top.keys[0] == "camliSigner" {
		feats = append(feats, "signer-first")
	}
	e := &emitter{style: sp.style, rng: g.rng, indent: []string{" ", "  ", "\t", "    "}[g.rng.Intn(4)]}
	if sp.leadWS {
		e.b.WriteString([]string{" ", "\n", "\t \r\n"}[g.rng.Intn(3)])
		feats = append(feats, "leading-ws")
	}
	e.emit(top, 0, false)
	j := e.b.String()
	if sp.wsBeforeEnd && sp.style != styleIndent {
		j = j[:len(j)-1] + []string{" ", "\n", "\t\n "}[g.rng.Intn(3)] + "}"
	}
	if sp.wsBeforeEnd || sp.style == styleIndent {
		feats = append(feats, "ws-before-closing-brace")
	}
	if sp.trailWS {
		j += []string{"\n", " ", "\r\n\t ", "\n\n\n"}[g.rng.Intn(4)]
		feats = append(feats, "trailing-ws")
	}
	if !utf8.ValidString(j) {
		panic("generator produced invalid UTF-8")
	}
	return j, feats
}
