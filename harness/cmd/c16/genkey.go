package main

// Documents signed by a key that perkeep generated itself (jsonsign.GenerateNewSecRing, an armored
// one-entity ring) rather than by one of the two shipped test keys; also through an armored ring
// that holds the generated entity between the two test entities, so the signing entity must be
// found by the key the document names.  Rule 1 is unchanged; the documents then go through every
// mutation class like any other document.  (The key material is necessarily fresh per run; the
// case list is not.)

import (
	"fmt"
	"os"
	"path/filepath"
	"strings"

	"golang.org/x/crypto/openpgp"
	"perkeep.org/pkg/blob"
	"perkeep.org/pkg/blobserver"
	"perkeep.org/pkg/jsonsign"
	"perkeep.org/pkg/schema"

	"verif.local/harness/hw"
	"verif.local/harness/sto"
)

// dir must outlive the mutation phase (text-mode signatures are made from the ring later).
func (c *checker) generatedKeyDocs(dir string, years []int) {
	r := c.r
	ring := filepath.Join(dir, "gen", "secring.gpg")
	var keyID string
	var err error
	if r.Guard("GenerateNewSecRing", map[string]any{"case_id": "genkey"}, func() { keyID, err = jsonsign.GenerateNewSecRing(ring) }) {
		return
	}
	if err != nil {
		r.Inconclusive("cannot generate a key ring: " + err.Error())
		return
	}
	ent, err := jsonsign.EntityFromSecring(keyID, ring)
	if err != nil {
		r.Violation("generated-key/unusable", fmt.Sprintf("the secret ring written by GenerateNewSecRing cannot be read back for key %s: %v", keyID, err), map[string]any{"case_id": "genkey"})
		return
	}
	armored, err := jsonsign.ArmoredPublicKey(ent)
	if err != nil {
		r.Violation("generated-key/unusable", "ArmoredPublicKey of the generated entity: "+err.Error(), map[string]any{"case_id": "genkey"})
		return
	}
	pub := sto.FromBytes([]byte(armored))
	k := &keyInfo{idx: 0, name: "generated-key", generated: true, s: &hw.Signer{PubRef: pub.Ref, Pub: pub, KeyID: keyID},
		ring: ring, ref: pub.Ref.String(), armored: armored}
	recv, ok := c.fetcher.(blobserver.BlobReceiver)
	if !ok || k.s.KeyID == c.keys[0].s.KeyID || k.s.KeyID == c.keys[1].s.KeyID {
		r.Inconclusive("cannot publish the generated public key to the key fetcher")
		return
	}
	if err := sto.StoreAll(recv, []sto.Blob{pub}); err != nil {
		r.Inconclusive("cannot publish the generated public key: " + err.Error())
		return
	}
	c.byRef[k.ref] = k
	c.genKey = k

	// an armored ring: test key 1, the generated key, test key 2
	var el openpgp.EntityList
	for _, e := range []struct{ id, ring string }{{c.keys[0].s.KeyID, c.keys[0].ring}, {keyID, ring}, {c.keys[1].s.KeyID, c.keys[1].ring}} {
		x, err := jsonsign.EntityFromSecring(e.id, e.ring)
		if err != nil {
			r.Inconclusive("EntityFromSecring: " + err.Error())
			return
		}
		el = append(el, x)
	}
	ring3 := filepath.Join(dir, "three.gpg")
	f, err := os.Create(ring3)
	if err == nil {
		err = jsonsign.WriteKeyRing(f, el)
		f.Close()
	}
	if err != nil {
		r.Inconclusive("cannot write the three-entity ring: " + err.Error())
		return
	}
	ss, err := schema.NewSigner(blob.MustParse(k.ref), strings.NewReader(armored), ring)
	if err != nil {
		r.Violation("generated-key/unusable", "schema.NewSigner with the generated ring: "+err.Error(), map[string]any{"case_id": "genkey"})
		return
	}

	rng := r.Rand("generated-key-documents")
	g := &docGen{rng: rng}
	paths := []string{"SecretKeyringPath(generated ring)", "SecretKeyringPath(armored ring of three)", "schema.Signer(generated ring)", "EntityFetcher(generated ring)"}
	n := r.Pick(2, 4)
	for v := 0; v < len(paths); v++ {
		i := len(c.docs)
		id := fmt.Sprintf("doc%d", i)
		key := k
		j, feats := g.generate(docSpec{style: v % styles, rawLook: v%2 == 1, trailWS: v%2 == 0, signerRef: key.ref})
		d := &docCase{idx: i, key: key, J: j, T: payloadOf(j), feats: feats, sigTime: hw.T(years[v%len(years)], rng.Intn(365*86400))}
		c.docs = append(c.docs, d)
		var signed string
		var err error
		if r.Guard("Sign", map[string]any{"case_id": id, "unsigned": j}, func() {
			switch v {
			case 0:
				signed, err = (&jsonsign.SignRequest{UnsignedJSON: j, Fetcher: c.fetcher, ServerMode: true, SecretKeyringPath: ring, SignatureTime: d.sigTime}).Sign(c.ctx)
			case 1:
				signed, err = (&jsonsign.SignRequest{UnsignedJSON: j, Fetcher: c.fetcher, ServerMode: true, SecretKeyringPath: ring3, SignatureTime: d.sigTime}).Sign(c.ctx)
			case 2:
				signed, err = ss.SignJSON(c.ctx, j, d.sigTime)
			default:
				signed, err = (&jsonsign.SignRequest{UnsignedJSON: j, Fetcher: c.fetcher, ServerMode: true, EntityFetcher: &jsonsign.FileEntityFetcher{File: ring}, SignatureTime: d.sigTime}).Sign(c.ctx)
			}
		}) {
			continue
		}
		if err != nil {
			r.Violation("sign-output/error", fmt.Sprintf("Sign (%s) refused a valid unsigned object naming the generated key: %v", paths[v], err), map[string]any{"case_id": id, "unsigned": j})
			continue
		}
		S, packet, ok := c.checkSignOutput(id, key, true, j, signed)
		if !ok {
			continue
		}
		c.checkSigTime("sign-output/signature-time", id, packet, d.sigTime, map[string]any{"case_id": id, "unsigned": j, "signed": signed})
		r.Note("signing_paths", paths[v])
		r.Note("signing_keys", key.name)
		r.Count("documents", 1)
		r.Count("document_bytes_total", len(signed))
		r.Distinct("valid:" + signed)
		if v < n {
			// gets the full mutation treatment
			d.signed, d.S, d.packet = signed, S, packet
		}
	}
}
