package main

// Unsigned objects with further keys that differ from camliSigner / camliVersion / camliType /
// camliSig only by CASE (or by a Unicode case fold: U+017F LATIN SMALL LETTER LONG S folds to 's').
//
// JSON object keys are case-sensitive, and the verifier looks its keys up exactly.  "Any further
// keys" of the quantifier therefore includes "camlisigner", "CAMLISIGNER", "CamliSigner",
// "camli\u017figner" ...: they are ordinary further keys, whatever their value (free text, a
// number, the blobref of ANOTHER public key the signer also holds), and wherever they stand
// (before or after the real key).  Rule 1 is unchanged: Sign returns a document with payload T
// that verifies, exposes every field, and is attributed to the key named by the exact-case
// camliSigner.  A signer that reads its keys case-insensitively (struct decoding of encoding/json
// is case-insensitive and last-wins) either refuses such an object or signs it with another key.
//
// The documents are signed through all signing entry points; where the signer holds several
// identities (rings with both test keys) a wrong-key signature is possible and shows as a fresh
// document that does not verify.

import (
	"fmt"
	"math/rand"
	"net/http"
	"strings"
	"unicode"

	"perkeep.org/pkg/blob"
	"perkeep.org/pkg/jsonsign"
	"perkeep.org/pkg/schema"

	"verif.local/harness/hw"
)

// dupKey is one further top-level key that is a case variant of a reserved key.
type dupKey struct {
	base    string // the reserved key it resembles
	variant string
	val     *jv
	valKind string
	after   bool // placed after (true) / before (false) the real key
}

// caseVariants lists the spellings of base that equal it under case folding but not byte-wise.
func caseVariants(base string) (vs []string, kinds []string) {
	add := func(kind, s string) {
		if s == base {
			return
		}
		for _, have := range vs {
			if have == s {
				return
			}
		}
		vs = append(vs, s)
		kinds = append(kinds, kind)
	}
	add("lower", strings.ToLower(base))
	add("upper", strings.ToUpper(base))
	add("title", strings.ToUpper(base[:1])+base[1:])
	// the single capital of camliXxx lowered, everything else as is (already "lower"), and one
	// other letter flipped
	rs := []rune(base)
	for i := len(rs) - 1; i > 0; i-- {
		if unicode.IsLower(rs[i]) {
			f := append([]rune(nil), rs...)
			f[i] = unicode.ToUpper(f[i])
			add("one-letter-flipped", string(f))
			break
		}
	}
	if i := strings.IndexAny(base, "sS"); i >= 0 {
		add("long-s-fold", base[:i]+"\u017f"+base[i+1:])
		add("long-s-fold-upper", strings.ToUpper(base[:i])+"\u017f"+strings.ToUpper(base[i+1:]))
	}
	if i := strings.IndexAny(base, "kK"); i >= 0 {
		add("kelvin-fold", base[:i]+"K"+base[i+1:])
	}
	return vs, kinds
}

// caseDocPlan enumerates (deterministically) what the n-th case-variant document carries.
func (c *checker) caseDocPlan(n int, k *keyInfo, rng *rand.Rand) []dupKey {
	other := c.keys[1-k.idx]
	signerVals := []struct {
		kind string
		v    *jv
	}{
		{"other-key-ref", str(other.ref, escMinimal)},
		{"free-text", str("Alice (laptop key)", escMinimal)},
		{"number", raw("7")},
		{"other-key-ref", str(other.ref, escASCII)},
		{"null", raw("null")},
		{"unknown-blobref", str("sha224-"+strings.Repeat("0", 56), escMinimal)},
		{"object", &jv{kind: jObj, keys: []string{"camliSigner"}, vals: []*jv{str(other.ref, escMinimal)}}},
		{"other-key-ref", str(other.ref, escMinimal)},
		{"empty-string", str("", escMinimal)},
		{"array", &jv{kind: jArr, vals: []*jv{str(other.ref, escMinimal)}}},
		{"same-ref", str(k.ref, escMinimal)},
		{"bool", raw("false")},
	}
	if c.genKey != nil {
		signerVals = append(signerVals, struct {
			kind string
			v    *jv
		}{"generated-key-ref", str(c.genKey.ref, escMinimal)})
	}
	sv, _ := caseVariants("camliSigner")
	var ds []dupKey
	// the signer key: variant, value and side all cycle with different periods
	val := signerVals[n%len(signerVals)]
	ds = append(ds, dupKey{base: "camliSigner", variant: sv[(n/2)%len(sv)], val: val.v, valKind: val.kind, after: n%2 == 0})
	// every third document: a second variant of the signer key on the other side
	if n%3 == 1 {
		val2 := signerVals[(n+5)%len(signerVals)]
		ds = append(ds, dupKey{base: "camliSigner", variant: sv[(n/2+3)%len(sv)], val: val2.v, valKind: val2.kind, after: n%2 != 0})
	}
	// the other reserved keys
	switch n % 4 {
	case 0:
		vv, _ := caseVariants("camliVersion")
		ds = append(ds, dupKey{base: "camliVersion", variant: vv[(n/4)%len(vv)], val: []*jv{raw("2"), str("x", escMinimal), raw("null")}[(n/4)%3], valKind: "version-like", after: (n/4)%2 == 0})
	case 1:
		tv, _ := caseVariants("camliType")
		ds = append(ds, dupKey{base: "camliType", variant: tv[(n/4)%len(tv)], val: []*jv{str("permanode", escMinimal), str("bogus", escMinimal), raw("1")}[(n/4)%3], valKind: "type-like", after: (n/4)%2 == 1})
	case 2:
		gv, _ := caseVariants("camliSig")
		ds = append(ds, dupKey{base: "camliSig", variant: gv[(n/4)%len(gv)], val: str("wsBcBAABCAAQBQJKs1z/CRAxxxxxxxxx=AbCd", escMinimal), valKind: "signature-like", after: rng.Intn(2) == 0})
	}
	// the duplicated variant also in exactly the spelling pair the other way round is pointless;
	// but two variants of the same base must not be byte-identical keys
	seen := map[string]bool{}
	out := ds[:0]
	for _, d := range ds {
		if !seen[d.variant] {
			seen[d.variant] = true
			out = append(out, d)
		}
	}
	return out
}

// insertDups places the case-variant keys into an already ordered top-level object.
func insertDups(top *jv, dups []dupKey, rng *rand.Rand) {
	for _, d := range dups {
		at := -1
		for i, k := range top.keys {
			if k == d.base {
				at = i
			}
		}
		var pos int
		switch {
		case at < 0: // base not present (camliSig): anywhere
			pos = rng.Intn(len(top.keys) + 1)
		case d.after:
			pos = at + 1 + rng.Intn(len(top.keys)-at)
		default:
			pos = rng.Intn(at + 1)
		}
		top.keys = append(top.keys, "")
		copy(top.keys[pos+1:], top.keys[pos:])
		top.keys[pos] = d.variant
		top.vals = append(top.vals, nil)
		copy(top.vals[pos+1:], top.vals[pos:])
		top.vals[pos] = d.val
	}
}

const (
	cpSingleRing = iota
	cpRingPathBoth
	cpEntityFetcherBoth
	cpHelperPost
	cpSchemaSigner
	cpKinds
)

var cpNames = []string{"EntityFetcher(single-entity ring)", "SecretKeyringPath(ring holding both keys)", "EntityFetcher(ring holding both keys)",
	"signhandler:POST camli/sig/sign", "schema.Signer.SignJSON"}

// caseVariantDocs signs the family (rule 1) and queues some of the documents for the mutation phase.
func (c *checker) caseVariantDocs(years []int) {
	r := c.r
	rng := r.Rand("case-variant-keys")
	g := &docGen{rng: rng}
	nDocs := r.Pick(30, 144)
	nMutated := r.Pick(3, 12)
	helpers := map[int]http.Handler{}
	signers := map[int]*schema.Signer{}
	for _, k := range c.keys {
		if h, err := c.sigHandler(k); err == nil {
			helpers[k.idx] = h
		}
		if s, err := schema.NewSigner(blob.MustParse(k.ref), strings.NewReader(k.armored), k.ring); err == nil {
			signers[k.idx] = s
		}
	}
	for n := 0; n < nDocs; n++ {
		i := len(c.docs)
		id := fmt.Sprintf("doc%d", i)
		k := c.keys[(n/5)%2]
		dups := c.caseDocPlan(n, k, rng)
		j, feats := g.generate(docSpec{style: n % styles, rawLook: n%7 == 3, trailWS: n%4 == 1, wsBeforeEnd: n%5 == 2, signerRef: k.ref, dups: dups})
		d := &docCase{idx: i, key: k, J: j, T: payloadOf(j), feats: feats, sigTime: hw.T(years[n%len(years)], rng.Intn(365*86400))}
		c.docs = append(c.docs, d)
		if c.only != "" && !strings.HasPrefix(c.only, id+"/") && c.only != id {
			continue
		}
		path := n % cpKinds
		if path == cpHelperPost && helpers[k.idx] == nil || path == cpSchemaSigner && signers[k.idx] == nil || (path == cpRingPathBoth || path == cpEntityFetcherBoth) && len(c.multiRings) == 0 {
			path = cpSingleRing
		}
		wit := map[string]any{"case_id": id, "unsigned": j, "signing_path": cpNames[path]}
		var signed string
		var err error
		timed := true
		if r.Guard("Sign", wit, func() {
			switch path {
			case cpSingleRing:
				signed, err = c.signAs(k, k.ref, j, d.sigTime)
			case cpRingPathBoth:
				signed, err = (&jsonsign.SignRequest{UnsignedJSON: j, Fetcher: c.fetcher, ServerMode: true, SecretKeyringPath: c.multiRings[n%len(c.multiRings)], SignatureTime: d.sigTime}).Sign(c.ctx)
			case cpEntityFetcherBoth:
				signed, err = (&jsonsign.SignRequest{UnsignedJSON: j, Fetcher: c.fetcher, ServerMode: true,
					EntityFetcher: &jsonsign.FileEntityFetcher{File: c.multiRings[n%len(c.multiRings)]}, SignatureTime: d.sigTime}).Sign(c.ctx)
			case cpHelperPost:
				timed = false
				code, body := sigPost(helpers[k.idx], "camli/sig/sign", "json", j)
				if code != 200 {
					err = fmt.Errorf("HTTP %d %s", code, truncateStr(body, 200))
				}
				signed = body
			case cpSchemaSigner:
				signed, err = signers[k.idx].SignJSON(c.ctx, j, d.sigTime)
			}
		}) {
			continue
		}
		for _, dk := range dups {
			side := "before"
			if dk.after {
				side = "after"
			}
			if dk.base == "camliSig" {
				side = "any"
			}
			r.Note("case_variant_keys", dk.base+":"+side)
			if dk.base == "camliSigner" {
				r.Note("case_variant_signer_values", dk.valKind+":"+side)
				r.Note("case_variant_signer_spellings", dk.variant)
			}
		}
		r.Note("case_variant_signing_paths", cpNames[path])
		r.Count("case_variant_documents", 1)
		if err != nil {
			r.Violation("sign-output/error/case-variant-key", fmt.Sprintf("Sign (%s) refused a valid unsigned object that has, besides the keys it needs, further keys differing from them only by case: %v", cpNames[path], err), wit)
			continue
		}
		S, packet, ok := c.checkSignOutput(id, k, true, j, signed)
		if !ok {
			continue
		}
		if timed {
			c.checkSigTime("sign-output/signature-time", id, packet, d.sigTime, map[string]any{"case_id": id, "unsigned": j, "signed": signed})
		}
		r.Count("documents", 1)
		r.Count("document_bytes_total", len(signed))
		r.Distinct("valid:" + signed)
		for _, f := range feats {
			r.Note("doc_features", f)
		}
		if n < 2 {
			r.Sample(map[string]any{"kind": "document with case-variant keys", "case_id": id, "signing_path": cpNames[path], "unsigned": j, "signed": signed})
		}
		if n < nMutated {
			d.signed, d.S, d.packet = signed, S, packet
		}
	}
}
