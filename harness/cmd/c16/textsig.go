package main

import (
	"bytes"
	"crypto"
	"strings"
	"time"

	"golang.org/x/crypto/openpgp"
	"golang.org/x/crypto/openpgp/packet"
	"perkeep.org/pkg/jsonsign"
)

// textModeSig returns the single-line form of an OpenPGP TEXT-mode (0x01) signature by key k over
// payload, as a foreign OpenPGP implementation could produce it.  Text-mode signatures cover the
// canonicalised text (line endings normalised to CRLF), i.e. NOT the exact payload bytes.
func textModeSig(k *keyInfo, payload string, t time.Time) (string, error) {
	ent, err := jsonsign.EntityFromSecring(k.s.KeyID, k.ring)
	if err != nil {
		return "", err
	}
	var buf bytes.Buffer
	if err := openpgp.ArmoredDetachSignText(&buf, ent, strings.NewReader(payload), &packet.Config{Time: func() time.Time { return t }}); err != nil {
		return "", err
	}
	out := buf.String()
	i1 := strings.Index(out, "\n\n")
	i2 := strings.Index(out, "\n-----")
	if i1 < 0 || i2 < 0 {
		return "", errNoArmor
	}
	return strings.ReplaceAll(out[i1+2:i2], "\n", ""), nil
}

type armorErr string

func (e armorErr) Error() string { return string(e) }

const errNoArmor = armorErr("cannot parse armored signature")

// foreignBinarySig returns the signature packet of a BINARY-mode detached signature by key k over
// payload made with digest algorithm h, as another OpenPGP implementation (or an older perkeep)
// could have produced it.
func foreignBinarySig(k *keyInfo, payload string, t time.Time, h crypto.Hash) ([]byte, error) {
	ent, err := jsonsign.EntityFromSecring(k.s.KeyID, k.ring)
	if err != nil {
		return nil, err
	}
	var buf bytes.Buffer
	if err := openpgp.DetachSign(&buf, ent, strings.NewReader(payload), &packet.Config{DefaultHash: h, Time: func() time.Time { return t }}); err != nil {
		return nil, err
	}
	return buf.Bytes(), nil
}
