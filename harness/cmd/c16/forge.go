package main

// Structure-aware forgeries that neither the byte-level nor the splice-level classes reach.
//
// (1) members-after-signature.  The signature object of a signed document (the bytes from the last
// separator on, doc/json-signing: BS) "must be a JSON object with exactly one key: camliSig".
// Anybody, without any key, can insert further members between the closing quote of the signature
// and the final '}': the payload bytes and the signature are untouched, yet the document is another
// one, and because the last duplicate key wins in every mainstream JSON reader, such members
// override signed fields (camliType, claimDate, attribute, value, ...) for whoever parses the blob.
// Oracle: an accepted document carries, outside its signed payload, no top-level member other than
// camliSig.  The harness reads the member names with its own token-level scan (duplicates kept).
//
// (2) algo-confusion.  A signature packet states a public-key algorithm.  A verifier that treats
// "the packet's algorithm is not the key's" as anything but a failure accepts a packet that no
// public-key operation was ever run on.  The forger needs no access to the named key: he hashes
// the payload with a hashed portion of his choice (stating RSA sign-only, DSA, ECDSA, ...), writes
// the matching 16-bit digest prefix and any integer(s) as the signature value.  Built here by hand
// (RFC 4880 5.2.3/5.2.4), over the genuine payload and over a payload nobody signed, with the
// issuer naming the victim.  Oracle (independent of the ledger): the signature value of an accepted
// document verifies, by crypto/rsa PKCS#1 v1.5 over digest(payload bytes + hashed portion +
// trailer), under the public key in the blob that camliSigner names.
//
// (3) named-key-cannot-sign.  The same confusion on the key side: a document naming a public key
// blob whose algorithm cannot sign at all (RSA encrypt-only) must not verify with any signature.
//
// The hand writer has a positive control: the same code, with algorithm 1 and the NAMED key's
// secret key, makes a signature that must be accepted (class handmade-signature).  Without an
// accepted control the family did not test anything and the run is inconclusive.

import (
	"bytes"
	"crypto"
	"crypto/rsa"
	"crypto/sha1"
	"crypto/sha256"
	"encoding/json"
	"fmt"
	"hash"
	"math/big"
	"strings"
	"time"

	"golang.org/x/crypto/openpgp/armor"
	"golang.org/x/crypto/openpgp/packet"
	"perkeep.org/pkg/blobserver"
	"perkeep.org/pkg/jsonsign"

	"verif.local/harness/hw"
	"verif.local/harness/sto"
)

// ---------------------------------------------------------------- (1) members after the signature

// topLevelKeys lists the member names of the JSON object at the start of obj in document order,
// duplicates included.  ok is false if obj does not start with a well-formed object.
func topLevelKeys(obj string) (keys []string, ok bool) {
	dec := json.NewDecoder(strings.NewReader(obj))
	tok, err := dec.Token()
	if d, isDelim := tok.(json.Delim); err != nil || !isDelim || d != '{' {
		return nil, false
	}
	for dec.More() {
		tok, err = dec.Token()
		k, isStr := tok.(string)
		if err != nil || !isStr {
			return nil, false
		}
		keys = append(keys, k)
		var v json.RawMessage
		if err := dec.Decode(&v); err != nil {
			return nil, false
		}
	}
	if _, err := dec.Token(); err != nil {
		return nil, false
	}
	return keys, true
}

// unsignedMembers names the top-level members a document carries after its payload other than
// camliSig, and counts its camliSig members.  readable is false if the bytes after the payload
// are not a JSON object the harness can scan.
func unsignedMembers(doc string) (extra []string, nSig int, readable bool) {
	i := strings.LastIndex(doc, sep)
	if i < 0 {
		return nil, 0, false
	}
	keys, ok := topLevelKeys("{" + doc[i+1:])
	if !ok {
		return nil, 0, false
	}
	for _, k := range keys {
		if k == "camliSig" {
			nSig++
		} else {
			extra = append(extra, k)
		}
	}
	return extra, nSig, true
}

// afterSigMembers lists what a forger could insert between the closing quote of the signature and
// the final '}' of d.signed.
func (c *checker) afterSigMembers(d *docCase) []string {
	other := c.keys[1-d.key.idx%2]
	otherS := d.S
	for _, off := range []int{1, 2, 3} {
		if o := c.docs[(d.idx+off)%len(c.docs)]; o.S != "" && o.S != d.S {
			otherS = o.S
			break
		}
	}
	vs := []string{
		`,"x":1`,
		`,"value":"evil"`,
		`, "camliType": "permanode"`,
		`,"x":{"y":[1,2,3]}`,
		`,"CAMLISIG":"zzzz"`,
		`,"camlisig":"` + d.S + `"`,
		`,"CamliSig":"` + otherS + `"`,
		`,"camliSigner":"` + other.ref + `"`,
		`,"camliVersion":2`,
		`,"claimDate":"2099-01-01T00:00:00Z"`,
		`,"attribute":"title","value":"evil"`,
		`,"claimType":"delete-claim","target":"` + other.ref + `"`,
		`,"":""`,
		`,"x":null`,
		`,"x":[]`,
		`,"x":{"camliSig":"` + d.S + `"}`,
		"\n,\n\"x\"\n:\n1\n",
		` , "x" : 1 `,
		"\t,\t\"camliType\"\t:\t\"file\"\r\n",
		`,"x":1,"y":"2","z":{"a":{"b":{}}}`,
		`,"x":"\u0022}"`,
		`,"x":"\"}\n"`,
		`,"é":"ü"`,
		// a second camliSig member that is not written as the separator
		`,"camliSig" :"` + d.S + `"`,
		`, "camliSig":"` + d.S + `"`,
		`,"camliSig": "` + otherS + `"`,
		`,"\u0063amliSig":"` + d.S + `"`,
		`,"camliSig":null`,
		`, "camliSig":"` + d.S + `","x":1`,
	}
	// other values for members of the signed payload itself
	if pm, err := decodeExact(d.J); err == nil {
		n := 0
		for _, k := range sortedKeys(pm) {
			if k == "camliSigner" || k == "camliVersion" || strings.ContainsAny(k, "\"\\") || n >= 3 {
				continue
			}
			n++
			vs = append(vs, ","+quote(k, escMinimal)+`:"verif-override"`)
			if n == 1 {
				vs = append(vs, ", "+quote(k, escASCII)+" : {\"verif\": [\"override\"]}")
			}
		}
	}
	return vs
}

func sortedKeys(m map[string]any) []string {
	ks := make([]string, 0, len(m))
	for k := range m {
		ks = append(ks, k)
	}
	// insertion sort: tiny maps
	for i := 1; i < len(ks); i++ {
		for j := i; j > 0 && ks[j] < ks[j-1]; j-- {
			ks[j], ks[j-1] = ks[j-1], ks[j]
		}
	}
	return ks
}

// membersAfterSignature submits the class for one document (called from special).
func (c *checker) membersAfterSignature(d *docCase, add func(class, region, text string)) {
	head := d.T + sep + d.S + `"`
	for n, x := range c.afterSigMembers(d) {
		add("members-after-signature", "signature", head+x+"}\n")
		if n%4 == 0 {
			add("members-after-signature", "signature", head+x+" }")
		}
	}
	// the genuine signature as the LAST of two camliSig members, something else as the first
	for _, first := range []string{"AAAA", "", d.S} {
		add("members-after-signature", "signature", d.T+sep+first+`", "camliSig":"`+d.S+tail)
		add("members-after-signature", "signature", d.T+sep+first+`","x":1,"camliSig" : "`+d.S+tail)
	}
	c.r.Count("members_after_signature_documents", 1)
}

// ---------------------------------------------------------------- (2) hand-written signature packets

const (
	algoRSA         = 1
	algoRSAEncrypt  = 2
	algoRSASignOnly = 3
	algoElgamal     = 16
	algoDSA         = 17
	algoECDH        = 18
	algoECDSA       = 19
	algoEdDSA       = 22

	hashIDSHA1   = 2
	hashIDSHA256 = 8
)

var algoNames = map[byte]string{0: "0-reserved", algoRSA: "1-RSA", algoRSAEncrypt: "2-RSA-encrypt-only", algoRSASignOnly: "3-RSA-sign-only",
	algoElgamal: "16-Elgamal", algoDSA: "17-DSA", algoECDH: "18-ECDH", algoECDSA: "19-ECDSA", algoEdDSA: "22-EdDSA", 100: "100-private"}

func newDigest(hashID byte) (hash.Hash, crypto.Hash, bool) {
	switch hashID {
	case hashIDSHA1:
		return sha1.New(), crypto.SHA1, true
	case hashIDSHA256:
		return sha256.New(), crypto.SHA256, true
	}
	return nil, 0, false
}

// sigDigest is what a v4 signature with this hashed portion signs for this payload (RFC 4880 5.2.4).
func sigDigest(payload string, hashed []byte) (digest []byte, h crypto.Hash, ok bool) {
	if len(hashed) < 6 {
		return nil, 0, false
	}
	hh, h, ok := newDigest(hashed[3])
	if !ok {
		return nil, 0, false
	}
	hh.Write([]byte(payload))
	hh.Write(hashed)
	n := len(hashed)
	hh.Write([]byte{4, 0xff, byte(n >> 24), byte(n >> 16), byte(n >> 8), byte(n)})
	return hh.Sum(nil), h, true
}

// hashedPortion writes version .. end of hashed subpackets of a binary-document signature.
func hashedPortion(algo, hashID byte, t time.Time, issuer []byte) []byte {
	u := uint32(t.Unix())
	sub := subpacket(2, []byte{byte(u >> 24), byte(u >> 16), byte(u >> 8), byte(u)}, false)
	if issuer != nil {
		sub = append(sub, subpacket(spIssuer, issuer, false)...)
	}
	return cat([]byte{4, 0x00, algo, hashID, byte(len(sub) >> 8), byte(len(sub))}, sub)
}

func mpi(b []byte) []byte {
	for len(b) > 0 && b[0] == 0 {
		b = b[1:]
	}
	bits := 0
	if len(b) > 0 {
		bits = (len(b)-1)*8 + big.NewInt(int64(b[0])).BitLen()
	}
	return cat([]byte{byte(bits >> 8), byte(bits)}, b)
}

// handPacket assembles a signature packet from a hashed portion, the payload it is to be attached
// to (for the digest prefix) and the signature integer(s).
func handPacket(payload string, hashed []byte, unhashed []byte, values ...[]byte) ([]byte, bool) {
	dg, _, ok := sigDigest(payload, hashed)
	if !ok {
		return nil, false
	}
	rest := []byte{dg[0], dg[1]}
	for _, v := range values {
		rest = append(rest, mpi(v)...)
	}
	return sigLayout{hashedPart: hashed, rest: rest}.build(unhashed, hdrNew), true
}

// rsaKeys returns the secret RSA key of k (from its ring) and the public RSA key in the public key
// blob that documents name (k.armored).
func (c *checker) rsaKeys(k *keyInfo) (*rsa.PrivateKey, *rsa.PublicKey) {
	c.rsaMu.Lock()
	defer c.rsaMu.Unlock()
	if c.rsaCache == nil {
		c.rsaCache = map[string]*rsaPair{}
	}
	if p, ok := c.rsaCache[k.ref]; ok {
		return p.priv, p.pub
	}
	p := &rsaPair{}
	c.rsaCache[k.ref] = p
	if blk, err := armor.Decode(strings.NewReader(k.armored)); err == nil && blk != nil {
		if pkt, err := packet.Read(blk.Body); err == nil {
			if pk, ok := pkt.(*packet.PublicKey); ok {
				p.pub, _ = pk.PublicKey.(*rsa.PublicKey)
			}
		}
	}
	if k.ring != "" {
		if ent, err := jsonsign.EntityFromSecring(k.s.KeyID, k.ring); err == nil && ent.PrivateKey != nil && !ent.PrivateKey.Encrypted {
			p.priv, _ = ent.PrivateKey.PrivateKey.(*rsa.PrivateKey)
		}
	}
	return p.priv, p.pub
}

type rsaPair struct {
	priv *rsa.PrivateKey
	pub  *rsa.PublicKey
}

// signedByNamedKey is the ledger-independent oracle: does the signature value in sp verify under
// the public key of k over exactly the payload bytes P?  decided is false when the harness cannot
// tell (key not RSA, digest algorithm it does not implement).
func (c *checker) signedByNamedKey(k *keyInfo, P string, sp sigParts) (verifies, decided bool) {
	_, pub := c.rsaKeys(k)
	if pub == nil {
		return false, false
	}
	dg, h, ok := sigDigest(P, []byte(sp.hashed))
	if !ok {
		return false, false
	}
	v, ok := new(big.Int).SetString(sp.value, 16)
	if !ok {
		return false, true
	}
	size := (pub.N.BitLen() + 7) / 8
	if len(v.Bytes()) > size {
		return false, true
	}
	return rsa.VerifyPKCS1v15(pub, h, dg, v.FillBytes(make([]byte, size))) == nil, true
}

// garbage is a deterministic byte string that is no signature of anything.
func garbage(n, salt int) []byte {
	b := make([]byte, n)
	x := uint32(0x9E3779B9) ^ uint32(salt)*2654435761
	for i := range b {
		x ^= x << 13
		x ^= x >> 17
		x ^= x << 5
		b[i] = byte(x >> 8)
	}
	b[0] |= 0x40
	b[0] &= 0x7f
	return b
}

type forgedSig struct {
	name   string
	packet []byte
}

// algoForgeries lists signature packets over payload that the named key `victim` never made: the
// stated public-key algorithm is not the victim key's, the digest prefix is right.
// origValue is the integer of a genuine signature of the victim over some payload (no key needed to
// copy it).
func (c *checker) algoForgeries(payload string, victim *keyInfo, attackers []*keyInfo, t time.Time, origValue []byte, salt int) []forgedSig {
	var out []forgedSig
	vid := keyIDBytes(victim)
	add := func(name string, hashed, unhashed []byte, values ...[]byte) {
		if p, ok := handPacket(payload, hashed, unhashed, values...); ok {
			out = append(out, forgedSig{name, p})
		}
	}
	for an, a := range attackers {
		priv, _ := c.rsaKeys(a)
		if priv == nil {
			continue
		}
		aid := keyIDBytes(a)
		algos := []byte{algoRSASignOnly, algoDSA, algoECDSA, algoRSAEncrypt, algoEdDSA, algoElgamal, algoECDH, 0, 100}
		if an > 0 {
			algos = algos[:1]
		}
		for _, algo := range algos {
			for _, hid := range []byte{hashIDSHA256, hashIDSHA1} {
				if hid == hashIDSHA1 && algo != algoRSASignOnly && algo != algoDSA {
					continue
				}
				hn := "SHA256"
				if hid == hashIDSHA1 {
					hn = "SHA1"
				}
				for _, iss := range []struct {
					name string
					id   []byte
				}{{"issuer-victim", vid}, {"issuer-attacker", aid}, {"no-issuer", nil}} {
					if iss.name != "issuer-victim" && (hid == hashIDSHA1 || an > 0) {
						continue
					}
					hashed := hashedPortion(algo, hid, t, iss.id)
					dg, h, _ := sigDigest(payload, hashed)
					real, err := rsa.SignPKCS1v15(nil, priv, h, dg)
					if err != nil {
						continue
					}
					label := fmt.Sprintf("algo-%s/%s/%s", algoNames[algo], hn, iss.name)
					two := algo == algoDSA || algo == algoECDSA || algo == algoEdDSA
					if two {
						// these algorithms carry two integers
						add(label+"/value-attacker-rsa-split", hashed, nil, real[:len(real)/2], real[len(real)/2:])
						add(label+"/value-garbage", hashed, nil, garbage(28, salt), garbage(28, salt+1))
						continue
					}
					add(label+"/value-attacker-rsa", hashed, nil, real)
					if iss.name == "issuer-victim" {
						add(label+"/value-garbage", hashed, nil, garbage(len(real), salt))
						add(label+"/value-one", hashed, nil, []byte{1})
						if origValue != nil {
							add(label+"/value-copied-from-genuine", hashed, nil, origValue)
						}
						// issuer also (or only) where the signature does not cover it
						add(label+"/value-attacker-rsa+unhashed-issuer-victim", hashed, subpacket(spIssuer, vid, false), real)
					}
				}
			}
		}
	}
	return out
}

// algoConfusion submits, for one document, the positive control of the hand writer and the
// forgeries over its payload and over a payload nobody signed.
func (c *checker) algoConfusion(d *docCase) {
	t := tally{}
	defer c.flush(t)
	r := c.r
	if len(d.packet) == 0 {
		return
	}
	id := fmt.Sprintf("doc%d", d.idx)
	priv, pub := c.rsaKeys(d.key)
	if priv == nil || pub == nil {
		r.Count("algo_confusion_documents_skipped_no_rsa_key", 1)
		return
	}
	// positive control: same writer, algorithm 1, the named key's own secret key
	if c.only == "" || strings.HasPrefix(c.only, id+"/handmade-signature/") {
		for n, hid := range []byte{hashIDSHA256, hashIDSHA1} {
			if n == 1 && d.idx%4 != 0 {
				continue
			}
			hashed := hashedPortion(algoRSA, hid, d.sigTime.Add(time.Duration(n+1)*time.Hour), keyIDBytes(d.key))
			dg, h, _ := sigDigest(d.T, hashed)
			v, err := rsa.SignPKCS1v15(nil, priv, h, dg)
			if err != nil {
				r.Inconclusive(id + ": crypto/rsa cannot sign with the test key: " + err.Error())
				return
			}
			pkt, _ := handPacket(d.T, hashed, nil, v)
			sp, err := parseSigPacket(pkt)
			if err != nil {
				r.Inconclusive(id + ": the harness cannot read the signature packet it wrote by hand")
				return
			}
			c.led.add(d.key.s.KeyID, d.T, sp)
			text := d.T + sep + encodeSig(pkt) + tail
			before := t["verified_mutants/handmade-signature/signature"]
			c.try(&mut{Doc: d.idx, Class: "handmade-signature", Region: "signature", Pos: n, text: text}, t)
			if t["verified_mutants/handmade-signature/signature"] > before {
				r.Note("handmade_signature_control", "accepted")
				c.valid.Store(text, true)
			} else {
				r.Note("handmade_signature_control", "rejected")
				r.Count("handmade_signature_control_rejected", 1)
			}
		}
	}
	// forgeries
	var orig []byte
	if l, ok := layoutOf(d.packet); ok && len(l.rest) > 4 {
		orig = l.rest[4:]
	}
	fresh := d.T + fmt.Sprintf(`,"verifForged":"f%d"`, d.idx)
	n := 0
	for pn, pl := range []string{d.T, fresh} {
		region := "signature"
		if pn == 1 {
			region = "payload"
		}
		for _, f := range c.algoForgeries(pl, d.key, c.othersOf(d.key), d.sigTime, orig, d.idx) {
			n++
			key := "rejected/bad signature"
			before := t[key]
			c.try(&mut{Doc: d.idx, Class: "algo-confusion", Region: region, Pos: n, text: pl + sep + encodeSig(f.packet) + tail}, t)
			kind := f.name
			if i := strings.IndexByte(kind, '/'); i >= 0 {
				kind = kind[:i]
			}
			r.Note("algo_confusion_algorithms", kind)
			if t[key] > before {
				// the packet was read and its digest compared: the forgery got as far as the signature check
				r.Note("algo_confusion_reached_signature_check", kind)
			}
			if i := strings.LastIndexByte(f.name, '/'); i >= 0 {
				r.Note("algo_confusion_values", f.name[i+1:])
			}
		}
	}
	r.Count("algo_confusion_documents", 1)
}

// ---------------------------------------------------------------- (3) a named key that cannot sign

// cannotSignKeyDocs publishes a public key blob whose algorithm is RSA encrypt-only (the key
// material of test key 1 under another algorithm octet: another key, with its own id) and submits
// documents naming it.  Nobody can make a valid signature with such a key, so none may verify.
func (c *checker) cannotSignKeyDocs(years []int) {
	r := c.r
	if c.only != "" && !strings.HasPrefix(c.only, "doc9") {
		return
	}
	base := c.keys[0]
	blk, err := armor.Decode(strings.NewReader(base.armored))
	if err != nil || blk == nil {
		r.Inconclusive("cannot read the armored test public key")
		return
	}
	var raw bytes.Buffer
	raw.ReadFrom(blk.Body)
	b := raw.Bytes()
	// first packet: public key, version 4, creation time, algorithm octet
	var off, n int
	switch {
	case len(b) > 3 && b[0] == 0x99:
		n, off = int(b[1])<<8|int(b[2]), 3
	case len(b) > 3 && b[0] == 0x98:
		n, off = int(b[1]), 2
	case len(b) > 3 && b[0] == 0xC6 && b[1] < 192:
		n, off = int(b[1]), 2
	case len(b) > 3 && b[0] == 0xC6 && b[1] < 224:
		n, off = (int(b[1])-192)<<8+int(b[2])+192, 3
	}
	if off == 0 || off+n > len(b) || n < 6 || b[off] != 4 || b[off+5] != algoRSA {
		r.Inconclusive("the test public key is not a version 4 RSA key packet the harness can rewrite")
		return
	}
	kp := append([]byte(nil), b[:off+n]...)
	kp[off+5] = algoRSAEncrypt
	var ab bytes.Buffer
	w, err := armor.Encode(&ab, "PGP PUBLIC KEY BLOCK", nil)
	if err == nil {
		w.Write(kp)
		err = w.Close()
	}
	if err != nil {
		r.Inconclusive("cannot armor the rewritten key: " + err.Error())
		return
	}
	armored := ab.String()
	p, err := packet.Read(bytes.NewReader(kp))
	pk, isKey := p.(*packet.PublicKey)
	if err != nil || !isKey || pk.CanSign() {
		r.Inconclusive("the rewritten key packet does not read back as a key that cannot sign")
		return
	}
	pubBlob := sto.FromBytes([]byte(armored))
	k := &keyInfo{idx: 0, name: "encrypt-only-key", generated: true, s: &hw.Signer{PubRef: pubBlob.Ref, Pub: pubBlob, KeyID: pk.KeyIdString()},
		ref: pubBlob.Ref.String(), armored: armored}
	if c.byRef[k.ref] != nil || k.s.KeyID == base.s.KeyID {
		r.Inconclusive("the rewritten key is not a new key")
		return
	}
	recv, ok := c.fetcher.(blobserver.BlobReceiver)
	if !ok {
		r.Inconclusive("cannot publish the encrypt-only public key to the key fetcher")
		return
	}
	if err := sto.StoreAll(recv, []sto.Blob{pubBlob}); err != nil {
		r.Inconclusive("cannot publish the encrypt-only public key: " + err.Error())
		return
	}
	c.byRef[k.ref] = k

	rng := r.Rand("named-key-cannot-sign")
	g := &docGen{rng: rng}
	t := tally{}
	defer c.flush(t)
	signers := []*keyInfo{c.keys[1], c.keys[0]}
	for v := 0; v < 3; v++ {
		j, _ := g.generate(docSpec{style: v % styles, rawLook: v%2 == 0, trailWS: v%2 == 1, signerRef: k.ref})
		T := payloadOf(j)
		when := hw.T(years[v%len(years)], rng.Intn(365*86400))
		n := 0
		for sn, by := range signers {
			priv, _ := c.rsaKeys(by)
			if priv == nil {
				continue
			}
			for _, algo := range []byte{algoRSA, algoRSASignOnly, algoRSAEncrypt, algoDSA} {
				for _, hid := range []byte{hashIDSHA256, hashIDSHA1} {
					hashed := hashedPortion(algo, hid, when, keyIDBytes(k))
					dg, h, _ := sigDigest(T, hashed)
					vals := [][]byte{garbage(256, v*100+n)}
					if sn == 0 {
						// made with ANOTHER key's secret (the key material of the encrypt-only key is
						// test key 1's; a signature with that secret is left to the garbage value)
						if real, err := rsa.SignPKCS1v15(nil, priv, h, dg); err == nil {
							vals = append(vals, real)
						}
					}
					for _, val := range vals {
						var pkt []byte
						if algo == algoDSA {
							pkt, _ = handPacket(T, hashed, nil, val[:len(val)/2], val[len(val)/2:])
						} else {
							pkt, _ = handPacket(T, hashed, nil, val)
						}
						n++
						c.try(&mut{Doc: 9000 + v, Class: "named-key-cannot-sign", Region: "signature", Pos: n, text: T + sep + encodeSig(pkt) + tail}, t)
						r.Note("cannot_sign_key_signature_algorithms", algoNames[algo])
					}
				}
			}
		}
		r.Count("cannot_sign_key_documents", 1)
	}
}

// carriedSignature reads the signature packet a document carries after the separator at i the way
// judge does: the last camliSig member of the signature object, else the text up to the next quote.
func (c *checker) carriedSignature(doc string, i int) (sigParts, bool) {
	var sm map[string]any
	sig := ""
	if err := json.Unmarshal([]byte("{"+doc[i+1:]), &sm); err == nil {
		sig, _ = sm["camliSig"].(string)
	}
	if sp, err := parseSigPacket(lenientPacketBytes(sig)); err == nil {
		return sp, true
	}
	rest := doc[i+len(sep):]
	if q := strings.IndexByte(rest, '"'); q >= 0 {
		rest = rest[:q]
	}
	sp, err := parseSigPacket(lenientPacketBytes(rest))
	return sp, err == nil
}

func pkAlgoOf(sp sigParts) int {
	if len(sp.hashed) > 2 {
		return int(sp.hashed[2])
	}
	return -1
}
