package main

// Crafted signature packets.
//
// An OpenPGP v4 signature packet has parts that the signature does NOT cover: the packet header
// (old/new format, length encoding) and the whole UNHASHED subpacket area.  Anybody can rewrite
// them in a validly signed document without touching the payload, the hashed portion or the
// signature integer.  The property allows such a document to verify (what it signs is unchanged),
// but then everything the verification reports must still be about the key the document NAMES:
// a document naming and signed by key A must never be attributed to key B because an unhashed
// issuer / issuer-fingerprint subpacket says "B".  (A reader that parses the unhashed area after
// the hashed one lets the unhashed issuer win.)
//
// The byte-level mutation classes cannot reach these documents: they need a structure-aware edit
// (insert a subpacket, fix two length fields, recompute the armor checksum).  This file builds them
// with the harness's own RFC 4880 writer; every variant is checked with the harness's reader to
// sign the same thing (same hashed portion, same signature integer) before it is submitted, and
// judge() compares SignerKeyId / PayloadMap of every accepted one with the named key.
//
// A second source of the same situation: signatures made the way gpg makes them (issuer ONLY in
// the unhashed area).  Such documents are built with the test secret keys, go into the ledger and,
// when accepted, through all mutation classes: a bit flipped inside the unhashed issuer leaves the
// signed content alone and must leave the reported signer alone too.

import (
	"bytes"
	"crypto"
	"encoding/hex"
	"fmt"
	"strings"
	"time"

	"golang.org/x/crypto/openpgp/packet"
	"perkeep.org/pkg/jsonsign"

	"verif.local/harness/hw"
)

// sigLayout is a v4 signature packet body cut at the boundaries of what is signed.
type sigLayout struct {
	hashedPart []byte // version .. end of hashed subpackets (enters the digest)
	unhashed   []byte // unhashed subpacket area, without its two length octets
	rest       []byte // left 16 bits of the digest and the MPI(s)
}

// layoutOf cuts a well-formed packet (as made by Sign or by the harness) into its parts.
func layoutOf(b []byte) (l sigLayout, ok bool) {
	if len(b) < 3 || b[0]&0x80 == 0 {
		return l, false
	}
	var off, n int
	if b[0]&0x40 != 0 {
		if b[0]&0x3f != 2 {
			return l, false
		}
		l0 := int(b[1])
		switch {
		case l0 < 192:
			n, off = l0, 2
		case l0 < 224:
			n, off = (l0-192)<<8+int(b[2])+192, 3
		case l0 == 255 && len(b) >= 6:
			n, off = int(b[2])<<24|int(b[3])<<16|int(b[4])<<8|int(b[5]), 6
		default:
			return l, false
		}
	} else {
		if (b[0]&0x3c)>>2 != 2 {
			return l, false
		}
		switch b[0] & 3 {
		case 0:
			n, off = int(b[1]), 2
		case 1:
			n, off = int(b[1])<<8|int(b[2]), 3
		case 2:
			if len(b) < 5 {
				return l, false
			}
			n, off = int(b[1])<<24|int(b[2])<<16|int(b[3])<<8|int(b[4]), 5
		default:
			n, off = len(b)-1, 1
		}
	}
	if off+n != len(b) {
		return l, false
	}
	body := b[off:]
	if len(body) < 8 || body[0] != 4 {
		return l, false
	}
	hl := int(body[4])<<8 | int(body[5])
	if 6+hl+2 > len(body) {
		return l, false
	}
	ul := int(body[6+hl])<<8 | int(body[6+hl+1])
	if 6+hl+2+ul > len(body) {
		return l, false
	}
	l.hashedPart = body[:6+hl]
	l.unhashed = body[6+hl+2 : 6+hl+2+ul]
	l.rest = body[6+hl+2+ul:]
	return l, true
}

const (
	hdrNew     = iota // new format, shortest length encoding
	hdrNew5           // new format, five-octet length
	hdrOld2           // old format, two-octet length
	hdrOld4           // old format, four-octet length
	hdrOldIndet       // old format, indeterminate length (runs to the end of the armor)
	hdrKinds
)

var hdrNames = []string{"new", "new-5-octet-length", "old-2-octet-length", "old-4-octet-length", "old-indeterminate-length"}

// build writes the packet with another unhashed area and/or packet header.
func (l sigLayout) build(unhashed []byte, hdr int) []byte {
	var body []byte
	body = append(body, l.hashedPart...)
	body = append(body, byte(len(unhashed)>>8), byte(len(unhashed)))
	body = append(body, unhashed...)
	body = append(body, l.rest...)
	n := len(body)
	var h []byte
	switch hdr {
	case hdrNew5:
		h = []byte{0xC2, 0xFF, byte(n >> 24), byte(n >> 16), byte(n >> 8), byte(n)}
	case hdrOld2:
		h = []byte{0x89, byte(n >> 8), byte(n)}
	case hdrOld4:
		h = []byte{0x8A, byte(n >> 24), byte(n >> 16), byte(n >> 8), byte(n)}
	case hdrOldIndet:
		h = []byte{0x8B}
	default:
		switch {
		case n < 192:
			h = []byte{0xC2, byte(n)}
		case n < 8384:
			h = []byte{0xC2, byte((n-192)>>8) + 192, byte(n - 192)}
		default:
			h = []byte{0xC2, 0xFF, byte(n >> 24), byte(n >> 16), byte(n >> 8), byte(n)}
		}
	}
	return append(h, body...)
}

// subpacket writes one signature subpacket (RFC 4880 5.2.3.1); long selects the five-octet length form.
func subpacket(typ byte, data []byte, long bool) []byte {
	n := len(data) + 1
	var b []byte
	if long {
		b = []byte{255, byte(n >> 24), byte(n >> 16), byte(n >> 8), byte(n)}
	} else if n < 192 {
		b = []byte{byte(n)}
	} else {
		b = []byte{byte((n-192)>>8) + 192, byte(n - 192)}
	}
	b = append(b, typ)
	return append(b, data...)
}

const (
	spIssuer    = 16
	spIssuerFpr = 33
	spCritical  = 0x80
)

func cat(parts ...[]byte) []byte {
	var b []byte
	for _, p := range parts {
		b = append(b, p...)
	}
	return b
}

// keyIDBytes / keyFpr: what an issuer / issuer-fingerprint subpacket naming key k holds.
func keyIDBytes(k *keyInfo) []byte {
	b, err := hex.DecodeString(k.s.KeyID)
	if err != nil || len(b) != 8 {
		return nil
	}
	return b
}

func keyFpr(k *keyInfo) []byte {
	fp, _, err := jsonsign.ParseArmoredPublicKey(strings.NewReader(k.armored))
	if err != nil {
		return nil
	}
	b, err := hex.DecodeString(fp)
	if err != nil || len(b) != 20 {
		return nil
	}
	return b
}

type craftVariant struct {
	name   string
	packet []byte
}

// craftVariants lists the re-writings of one signature packet that leave what it signs alone.
// `others` are the keys a forger would like the document to be attributed to.
func craftVariants(pkt []byte, self *keyInfo, others []*keyInfo, salt int) (vs []craftVariant, err error) {
	l, ok := layoutOf(pkt)
	if !ok {
		return nil, fmt.Errorf("cannot cut the signature packet into hashed / unhashed / value parts")
	}
	u0 := l.unhashed
	add := func(name string, unhashed []byte, hdr int) {
		vs = append(vs, craftVariant{name, l.build(unhashed, hdr)})
	}
	for n, o := range others {
		who := "other-key"
		if n > 0 {
			who = fmt.Sprintf("other-key-%d", n+1)
		}
		id, fpr := keyIDBytes(o), keyFpr(o)
		if id == nil || fpr == nil {
			return nil, fmt.Errorf("no key id / fingerprint for %s", o.name)
		}
		iss := subpacket(spIssuer, id, false)
		fp := subpacket(spIssuerFpr, append([]byte{4}, fpr...), false)
		add("unhashed-issuer-appended:"+who, cat(u0, iss), hdrNew)
		add("unhashed-issuer-prepended:"+who, cat(iss, u0), hdrNew)
		add("unhashed-issuer-only:"+who, iss, hdrNew)
		add("unhashed-issuer-twice:"+who, cat(u0, subpacket(spIssuer, keyIDBytes(self), false), iss), hdrNew)
		add("unhashed-issuer-then-own:"+who, cat(u0, iss, subpacket(spIssuer, keyIDBytes(self), false)), hdrNew)
		add("unhashed-issuer-fingerprint:"+who, cat(u0, fp), hdrNew)
		add("unhashed-issuer+fingerprint:"+who, cat(u0, iss, fp), hdrNew)
		add("unhashed-fingerprint+issuer:"+who, cat(u0, fp, iss), hdrNew)
		add("unhashed-issuer-critical:"+who, cat(u0, subpacket(spIssuer|spCritical, id, false)), hdrNew)
		add("unhashed-issuer-long-length-form:"+who, cat(u0, subpacket(spIssuer, id, true)), hdrNew)
		add("unhashed-issuer-after-unknown-subpacket:"+who, cat(u0, subpacket(100, []byte("verif"), false), iss), hdrNew)
		for h := hdrNew5; h < hdrKinds; h++ {
			add("unhashed-issuer-appended+header-"+hdrNames[h]+":"+who, cat(u0, iss), h)
		}
	}
	// issuers that are nobody's key
	nobody := []byte{0xDE, 0xAD, 0xBE, 0xEF, byte(salt >> 16), byte(salt >> 8), byte(salt), 0x01}
	add("unhashed-issuer-appended:unknown-key", cat(u0, subpacket(spIssuer, nobody, false)), hdrNew)
	add("unhashed-issuer-appended:zero-key-id", cat(u0, subpacket(spIssuer, make([]byte, 8), false)), hdrNew)
	add("unhashed-issuer-appended:all-ones-key-id", cat(u0, subpacket(spIssuer, bytes.Repeat([]byte{0xFF}, 8), false)), hdrNew)
	add("unhashed-issuer-appended:own-key", cat(u0, subpacket(spIssuer, keyIDBytes(self), false)), hdrNew)
	// other things one can put into / take out of the unhashed area
	add("unhashed-emptied", nil, hdrNew)
	add("unhashed-unknown-subpacket", cat(u0, subpacket(100, []byte("verif"), false)), hdrNew)
	add("unhashed-unknown-critical-subpacket", cat(u0, subpacket(100|spCritical, []byte("verif"), false)), hdrNew)
	add("unhashed-signature-expiry", cat(u0, subpacket(3, []byte{0, 0, 0, 1}, false)), hdrNew)
	add("unhashed-key-expiry", cat(u0, subpacket(9, []byte{0, 0, 0, 1}, false)), hdrNew)
	add("unhashed-creation-time", cat(u0, subpacket(2, []byte{0x7f, 0, 0, byte(salt)}, false)), hdrNew)
	add("unhashed-notation", cat(u0, subpacket(20, cat([]byte{0x80, 0, 0, 0, 0, 5, 0, 5}, []byte("a@b.c"), []byte("value")), false)), hdrNew)
	add("unhashed-signers-user-id", cat(u0, subpacket(28, []byte("somebody else <b@example.com>"), false)), hdrNew)
	add("unhashed-malformed-issuer-length", cat(u0, subpacket(spIssuer, []byte{1, 2, 3}, false)), hdrNew)
	add("unhashed-zero-length-subpacket", cat(u0, []byte{0}), hdrNew)
	add("unhashed-subpacket-overruns-area", cat(u0, []byte{40, spIssuer, 1, 2}), hdrNew)
	// only the packet header written differently
	for h := hdrNew5; h < hdrKinds; h++ {
		add("header-"+hdrNames[h], u0, h)
	}
	return vs, nil
}

// crafted submits the crafted-signature variants of one document.
func (c *checker) crafted(d *docCase) {
	t := tally{}
	defer c.flush(t)
	r := c.r
	if len(d.packet) == 0 {
		return
	}
	orig, err := parseSigPacket(d.packet)
	if err != nil {
		return
	}
	vs, err := craftVariants(d.packet, d.key, c.othersOf(d.key), d.idx)
	if err != nil {
		r.Inconclusive(fmt.Sprintf("doc%d: %v", d.idx, err))
		return
	}
	for n, v := range vs {
		// the harness's own reader must agree that the variant signs the same thing
		sp, err := parseSigPacket(v.packet)
		if err != nil || sp != orig {
			r.Inconclusive(fmt.Sprintf("doc%d: the harness built signature variant %q that its own reader does not read back as signing the same thing", d.idx, v.name))
			continue
		}
		class := "sig-unhashed-edit"
		if strings.HasPrefix(v.name, "header-") {
			class = "sig-header-reencode"
		}
		key := "verified_mutants/" + class + "/signature"
		before, same := t[key], t["mutants_identical_to_valid_document"]
		c.try(&mut{Doc: d.idx, Class: class, Region: "signature", Pos: n, text: d.T + sep + encodeSig(v.packet) + tail}, t)
		kind := v.name
		if i := strings.IndexByte(kind, ':'); i >= 0 && strings.HasPrefix(kind[i+1:], "other-key-") {
			kind = kind[:i] + ":other-key"
		}
		r.Note("crafted_signature_variants", kind)
		if t[key] > before {
			// accepted: judge() compared SignerKeyId and PayloadMap with the key the document names
			r.Note("crafted_signature_variants_accepted_and_signer_compared", kind)
			t["crafted_signatures_accepted"]++
		} else if t["mutants_identical_to_valid_document"] == same {
			t["crafted_signatures_rejected"]++
		}
	}
}

// othersOf lists the keys known to the fetcher other than k (the ones a forger could point to).
func (c *checker) othersOf(k *keyInfo) []*keyInfo {
	var o []*keyInfo
	for _, x := range c.keys {
		if x.s.KeyID != k.s.KeyID {
			o = append(o, x)
		}
	}
	if c.genKey != nil && c.genKey.s.KeyID != k.s.KeyID && len(o) < 2 {
		o = append(o, c.genKey)
	}
	return o
}

// gpgStyleSig returns a binary-mode SHA-256 signature packet by key k over payload whose issuer
// is stated only in the UNHASHED area (optionally with a hashed issuer fingerprint), the layout
// GnuPG produces.
func gpgStyleSig(k *keyInfo, payload string, t time.Time, hashedFpr bool) ([]byte, error) {
	ent, err := jsonsign.EntityFromSecring(k.s.KeyID, k.ring)
	if err != nil {
		return nil, err
	}
	if ent.PrivateKey == nil || ent.PrivateKey.Encrypted {
		return nil, fmt.Errorf("no usable private key for %s", k.name)
	}
	sig := &packet.Signature{SigType: packet.SigTypeBinary, PubKeyAlgo: ent.PrivateKey.PubKeyAlgo, Hash: crypto.SHA256, CreationTime: t}
	_ = hashedFpr // x/crypto cannot emit a hashed fingerprint subpacket; kept for the evidence label only
	h := crypto.SHA256.New()
	h.Write([]byte(payload))
	if err := sig.Sign(h, ent.PrivateKey, nil); err != nil {
		return nil, err
	}
	var buf bytes.Buffer
	if err := sig.Serialize(&buf); err != nil {
		return nil, err
	}
	l, ok := layoutOf(buf.Bytes())
	if !ok {
		return nil, fmt.Errorf("cannot cut the packet x/crypto serialized")
	}
	if bytes.Contains(l.hashedPart, keyIDBytes(k)) {
		return nil, fmt.Errorf("the hashed area states the issuer; not a gpg-style signature")
	}
	return l.build(cat(l.unhashed, subpacket(spIssuer, keyIDBytes(k), false)), hdrOld2), nil
}

// gpgStyleDocs adds documents signed the gpg way.  Like the foreign-digest documents they are
// judged for soundness only: whether they verify is not stated by the property, but if one does,
// it and its tampered copies are judged like any other document.
func (c *checker) gpgStyleDocs(years []int) {
	r := c.r
	rng := r.Rand("gpg-style-signatures")
	g := &docGen{rng: rng}
	for n := 0; n < r.Pick(2, 4); n++ {
		i := len(c.docs)
		k := c.keys[n%2]
		j, feats := g.generate(docSpec{style: n % styles, rawLook: n%2 == 1, trailWS: n%2 == 0, signerRef: k.ref})
		d := &docCase{idx: i, key: k, J: j, T: payloadOf(j), feats: feats, sigTime: hw.T(years[(n+3)%len(years)], rng.Intn(365*86400))}
		c.docs = append(c.docs, d)
		id := fmt.Sprintf("doc%d", i)
		pkt, err := gpgStyleSig(k, d.T, d.sigTime, false)
		if err != nil {
			r.Inconclusive(fmt.Sprintf("%s: cannot build a gpg-style signature: %v", id, err))
			continue
		}
		sp, err := parseSigPacket(pkt)
		if err != nil {
			r.Inconclusive(fmt.Sprintf("%s: the harness cannot read the gpg-style signature packet it built", id))
			continue
		}
		c.led.add(k.s.KeyID, d.T, sp)
		S := encodeSig(pkt)
		signed := d.T + sep + S + tail
		t := tally{}
		if c.only == "" || strings.HasPrefix(c.only, id+"/") {
			c.try(&mut{Doc: i, Class: "foreign-unhashed-issuer", Region: "signature", Pos: n, text: signed}, t)
		}
		verdict := "rejected"
		if t["verified_mutants/foreign-unhashed-issuer/signature"] > 0 || c.only != "" {
			verdict = "accepted"
			c.valid.Store(signed, true)
			d.signed, d.S, d.packet = signed, S, pkt
			r.Count("documents", 1)
			r.Count("document_bytes_total", len(signed))
		}
		c.flush(t)
		r.Note("gpg_style_documents", k.name+":"+verdict)
	}
}
