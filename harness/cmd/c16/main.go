// C16 — signed schema blobs verify, and only untampered ones do.
//
// Oracle (written from doc/json-signing/README.md and the property statement):
// the harness keeps a ledger of every (signing key id, exact payload bytes,
// signature made) it asked perkeep to sign.  A valid signed document must
// verify.  Any other byte string may verify only if the bytes before its last
// `,"camliSig":"` separator are a payload the ledger holds for the key that
// this payload names as camliSigner, and the signature packet it carries signs
// the same thing (same hashed portion and signature value) as one the ledger
// holds for that (key, payload).
package main

import (
	"context"
	"crypto"
	"encoding/json"
	"fmt"
	"io"
	"log"
	"os"
	"path/filepath"
	"reflect"
	"runtime"
	"sort"
	"strings"
	"sync"
	"time"

	"perkeep.org/pkg/blob"
	"perkeep.org/pkg/jsonsign"

	"verif.local/harness/ev"
	"verif.local/harness/hw"
)

const sep = `,"camliSig":"`
const tail = "\"}\n"

func main() {
	ev.Main("C16", "exploration",
		"seeded JSON documents (unicode, nesting, compact/indented/odd whitespace, escaped and raw separator look-alikes, embedded signed documents, two keys, signature times 1990-2020) signed through jsonsign; for each, every single-byte substitution (5-7 values), insertion (4 values), deletion and truncation at every position of the signed document plus signature-packet byte flips with repaired checksum, signature transplants, re-signing by the other key, signer swaps, armor and separator variants, crafted signature packets (unhashed issuer / issuer-fingerprint subpackets naming another key, re-encoded packet headers: what is signed unchanged, reported signer compared with the named key at Verify, camli/sig/verify and the index), gpg-style signatures (issuer only unhashed), JSON members inserted after the camliSig value (new keys, duplicates of signed keys, second camliSig, nested, with/without whitespace: an accepted document carries nothing outside its payload but camliSig), hand-written signature packets by the other key stating another public-key algorithm (3/2/17/19/22, right digest prefix, issuer = victim; accepted => the value verifies by the harness's own RSA check under the named key), documents naming an encrypt-only key; unsigned objects with further keys that are case variants of camliSigner/camliVersion/camliType/camliSig before and after the real key, signed through five signing entry points incl. rings holding both keys; documents signed through the DEFAULT secret ring (SignRequest with neither EntityFetcher nor SecretKeyringPath, jsonsign handler configured without secretRing: POST camli/sig/sign, Handler.Sign, Signer) with the default resolved through CAMLI_SECRET_RING (single-entity ring, ring holding both keys) or CAMLI_CONFIG_DIR/identity-secring.gpg; unsigned objects whose keys and values carry format-sensitive text (printf verbs, %%, lone/trailing %, URL escapes, printf error markers, backslash text, \\u0025, shell/template markers, very long keys and values) signed through eleven signing entry points; distinct = distinct mutant byte string; non-trivial = differs from every validly signed document and was submitted to Verify",
		run)
}

type keyInfo struct {
	generated bool // not one of the shipped test keys: hw.Signer's own signing path is not available
	idx       int
	name      string
	s         *hw.Signer
	ring      string
	ref       string
	armored   string
}

type ledger struct {
	mu sync.Mutex
	m  map[string]map[string][]sigParts // key id -> payload -> signatures made over it
}

func (l *ledger) add(keyID, payload string, sp sigParts) {
	l.mu.Lock()
	defer l.mu.Unlock()
	if l.m[keyID] == nil {
		l.m[keyID] = map[string][]sigParts{}
	}
	l.m[keyID][payload] = append(l.m[keyID][payload], sp)
}

func (l *ledger) get(keyID, payload string) ([]sigParts, bool) {
	l.mu.Lock()
	defer l.mu.Unlock()
	s, ok := l.m[keyID][payload]
	return s, ok
}

func (l *ledger) size() int {
	l.mu.Lock()
	defer l.mu.Unlock()
	n := 0
	for _, m := range l.m {
		n += len(m)
	}
	return n
}

type docCase struct {
	idx     int
	key     *keyInfo
	J       string // unsigned JSON handed to Sign
	T       string // payload the format says is signed: J minus trailing whitespace minus one '}'
	feats   []string
	sigTime time.Time
	signed  string
	S       string // single-line signature
	packet  []byte
	signed2 string // same J signed at another time
}

// mut is one mutant; it doubles as the replay witness.
type mut struct {
	Doc    int
	Class  string
	Region string
	Pos    int
	Val    int
	text   string
}

func (m *mut) caseID() string {
	return fmt.Sprintf("doc%d/%s/%d/%d", m.Doc, m.Class, m.Pos, m.Val)
}

func (m *mut) MarshalJSON() ([]byte, error) {
	return json.Marshal(map[string]any{
		"case_id": m.caseID(), "doc": m.Doc, "class": m.Class, "region": m.Region,
		"pos": m.Pos, "val": m.Val, "mutant_bytes": []byte(m.text), "mutant_text": m.text,
	})
}

type checker struct {
	r       *ev.Run
	ctx     context.Context
	keys    []*keyInfo
	byRef   map[string]*keyInfo
	fetcher blob.Fetcher
	led     *ledger
	valid   sync.Map // every validly signed document the harness holds (string -> true)
	only    string
	docs    []*docCase
	// secret ring files holding BOTH test entities (in either order), for signing through
	// SignRequest.SecretKeyringPath, where the signing entity must be picked by the named key
	multiRings []string
	genKey     *keyInfo // the key generated by perkeep itself (genkey.go), nil if that family did not run

	smu      sync.Mutex
	vsamples int

	rsaMu    sync.Mutex
	rsaCache map[string]*rsaPair // forge.go: RSA key material per key, for hand-written packets and the RSA oracle
}

// tally is a worker-local counter set flushed into the evidence at the end of a job.
type tally map[string]int

func (c *checker) flush(t tally) {
	n := 0
	for k, v := range t {
		if strings.HasPrefix(k, "mutants_by_class/") {
			n += v
			c.r.Note("mutation_classes", strings.TrimPrefix(k, "mutants_by_class/"))
		}
		if strings.HasPrefix(k, "mutants_by_region/") {
			c.r.Note("regions", strings.TrimPrefix(k, "mutants_by_region/"))
		}
		if strings.HasPrefix(k, "reached_signature_check/") {
			c.r.Note("reached_signature_check", strings.TrimPrefix(k, "reached_signature_check/"))
		}
		c.r.Count(k, v)
	}
	c.r.Eval(n)
}

// liar is the key fetcher of an attacker who signs with his own key while the
// document names somebody else's: it answers the named ref with the attacker's key.
type liar struct {
	named   blob.Ref
	armored string
}

func (l liar) Fetch(ctx context.Context, br blob.Ref) (io.ReadCloser, uint32, error) {
	if br == l.named {
		return io.NopCloser(strings.NewReader(l.armored)), uint32(len(l.armored)), nil
	}
	return nil, 0, os.ErrNotExist
}

// signAs signs unsigned with key `by`; named is the camliSigner ref in unsigned.
func (c *checker) signAs(by *keyInfo, named string, unsigned string, t time.Time) (string, error) {
	if named == by.ref && !by.generated {
		return by.s.SignJSON(unsigned, t)
	}
	sr := &jsonsign.SignRequest{
		UnsignedJSON:  unsigned,
		Fetcher:       liar{named: blob.MustParse(named), armored: by.armored},
		EntityFetcher: &jsonsign.FileEntityFetcher{File: by.ring},
		SignatureTime: t,
	}
	return sr.Sign(c.ctx)
}

// payloadOf is the README's definition of T.
func payloadOf(j string) string {
	t := strings.TrimRight(j, " \t\r\n")
	return strings.TrimSuffix(t, "}")
}

func decodeExact(s string) (map[string]any, error) {
	d := json.NewDecoder(strings.NewReader(s))
	d.UseNumber()
	var m map[string]any
	if err := d.Decode(&m); err != nil {
		return nil, err
	}
	if _, err := d.Token(); err != io.EOF {
		return nil, fmt.Errorf("trailing data after JSON object")
	}
	return m, nil
}

func isB64Line(s string) bool {
	for i := 0; i < len(s); i++ {
		c := s[i]
		if !(c >= 'A' && c <= 'Z' || c >= 'a' && c <= 'z' || c >= '0' && c <= '9' || c == '+' || c == '/' || c == '=') {
			return false
		}
	}
	return len(s) > 0
}

// checkSignOutput applies rule (1) to one Sign result and records it in the
// ledger.  honest says whether the signing key is the key the document names.
func (c *checker) checkSignOutput(id string, by *keyInfo, honest bool, j, signed string) (S string, packet []byte, ok bool) {
	r := c.r
	T := payloadOf(j)
	wit := map[string]any{"case_id": id, "unsigned": j, "signed": signed, "signing_key": by.name}
	r.Eval(1)
	orig, err := decodeExact(j)
	if err != nil {
		r.Inconclusive("harness generated invalid JSON: " + err.Error())
		return "", nil, false
	}
	got, err := decodeExact(signed)
	if err != nil {
		r.Violation("sign-output/invalid-json", fmt.Sprintf("Sign output is not a JSON object: %v", err), wit)
		return "", nil, false
	}
	for k, v := range orig {
		if gv, has := got[k]; !has || !reflect.DeepEqual(v, gv) {
			r.Violation("sign-output/field-changed", fmt.Sprintf("field %q of the unsigned object is %v in the signed document (was %v)", k, gv, v), wit)
			return "", nil, false
		}
	}
	sv, isStr := got["camliSig"].(string)
	if len(got) != len(orig)+1 || !isStr {
		r.Violation("sign-output/extra-fields", fmt.Sprintf("signed document has %d keys for %d original ones, camliSig string=%v", len(got), len(orig), isStr), wit)
		return "", nil, false
	}
	if !strings.HasPrefix(signed, T+sep) || !strings.HasSuffix(signed, tail) {
		r.Violation("sign-output/format", "signed document is not T + ',\"camliSig\":\"' + S + '\"}\\n' for the payload T of the unsigned JSON", wit)
		return "", nil, false
	}
	S = signed[len(T)+len(sep) : len(signed)-len(tail)]
	if !isB64Line(S) || S != sv {
		r.Violation("sign-output/signature-line", "camliSig is not a single base64 line", wit)
		return "", nil, false
	}
	if i := strings.LastIndex(signed, sep); i != len(T) {
		r.Violation("sign-output/payload-differs", "the last separator of the signed document does not follow the payload", wit)
		return "", nil, false
	}
	packet, _, okp := splitSig(S)
	var sp sigParts
	if okp {
		sp, err = parseSigPacket(packet)
	}
	if !okp || err != nil {
		r.Violation("sign-output/signature-armor", "camliSig is not base64(v4 signature packet) + '=' + base64(crc24)", wit)
		return "", nil, false
	}
	c.led.add(by.s.KeyID, T, sp)
	if honest {
		c.valid.Store(signed, true)
		m := &mut{Doc: -1, Class: "valid", Region: "none", text: signed}
		acc, _ := c.submit(m, id)
		if !acc {
			return S, packet, false
		}
	}
	return S, packet, true
}

func rejectReason(err error, vr *jsonsign.VerifyRequest) string {
	s := err.Error()
	if vr != nil && vr.Err != nil {
		s = vr.Err.Error()
	}
	s = strings.TrimPrefix(s, "jsonsign: ")
	if i := strings.IndexAny(s, ":;"); i >= 0 {
		s = s[:i]
	}
	if len(s) > 50 {
		s = s[:50]
	}
	return s
}

// submit hands one document to Verify and judges an acceptance.  validID is
// non-empty for documents that must be accepted.
func (c *checker) submit(m *mut, validID string) (accepted bool, reason string) {
	r := c.r
	var vr *jsonsign.VerifyRequest
	var err error
	wit := any(m)
	if validID != "" {
		wit = map[string]any{"case_id": validID, "signed": m.text}
	}
	if r.Guard("Verify", wit, func() {
		vr = jsonsign.NewVerificationRequest(m.text, c.fetcher)
		_, err = vr.Verify(c.ctx)
	}) {
		return false, "panic"
	}
	if err != nil {
		reason = rejectReason(err, vr)
		if validID != "" {
			r.Violation("verify-rejects-valid", fmt.Sprintf("Verify rejected a document produced by Sign: %v (%s)", err, reason), wit)
		}
		return false, reason
	}
	c.judge(m, vr, wit)
	return true, ""
}

// judge decides whether an accepted document was allowed to be accepted.
func (c *checker) judge(m *mut, vr *jsonsign.VerifyRequest, wit any) {
	r := c.r
	forged := func(why string) {
		r.Violation("forged-accepted/"+m.Class+"/"+m.Region, "Verify accepted a document although "+why, wit)
	}
	doc := m.text
	i := strings.LastIndex(doc, sep)
	if i < 0 {
		forged("it contains no signature separator")
		return
	}
	P := doc[:i]
	var pm map[string]any
	if err := json.Unmarshal([]byte(P+"}"), &pm); err != nil {
		forged("the bytes before the last separator plus '}' are not a JSON object: " + err.Error())
		return
	}
	signer, _ := pm["camliSigner"].(string)
	k := c.byRef[signer]
	if k == nil {
		forged(fmt.Sprintf("its camliSigner %q names no key known to the fetcher", signer))
		return
	}
	// Ledger-independent: the signature value the document carries must verify, by the harness's own
	// RSA check over exactly the payload bytes, under the public key in the blob it names.
	if sp0, ok := c.carriedSignature(doc, i); ok {
		if verifies, decided := c.signedByNamedKey(k, P, sp0); decided && !verifies {
			r.Violation("signature-not-by-named-key/"+m.Class, fmt.Sprintf("Verify accepted a document whose signature value does not verify (RSA PKCS#1 v1.5 over digest of the %d payload bytes + hashed portion + trailer; the packet states public-key algorithm %d) under the public key of %s, the key it names", len(P), pkAlgoOf(sp0), k.name), wit)
		} else if decided {
			r.Count("accepted_documents_rsa_checked_by_harness", 1)
		} else {
			r.Count("accepted_documents_rsa_check_undecided", 1)
		}
	}
	sigs, signedByNamed := c.led.get(k.s.KeyID, P)
	if !signedByNamed {
		forged(fmt.Sprintf("the %d payload bytes before the last separator were never signed by %s, the key it names", len(P), k.name))
		return
	}
	if vr.SignerKeyId != k.s.KeyID {
		r.Violation("wrong-signer-reported", fmt.Sprintf("SignerKeyId=%q but the document names %s (%s)", vr.SignerKeyId, k.name, k.s.KeyID), wit)
	}
	if !reflect.DeepEqual(vr.PayloadMap, pm) {
		r.Violation("payloadmap-mismatch", fmt.Sprintf("PayloadMap %v differs from the JSON of the signed payload %v", vr.PayloadMap, pm), wit)
	}
	// the document as a whole: nothing outside the signed payload but the one camliSig member
	if extra, nSig, readable := unsignedMembers(doc); readable {
		if len(extra) > 0 {
			r.Violation("unsigned-members-accepted/"+m.Class, fmt.Sprintf("Verify accepted a document that carries, after its signed payload, %d top-level member(s) besides camliSig that no signature covers: %q (a JSON reader of the blob sees them, and they override signed members of the same name)", len(extra), extra), wit)
		} else if nSig > 1 {
			r.Count("accepted_with_repeated_camliSig_member", 1)
		}
	}
	// what does the signature it carries sign?
	var sm map[string]any
	sig := ""
	if err := json.Unmarshal([]byte("{"+doc[i+1:]), &sm); err == nil {
		sig, _ = sm["camliSig"].(string)
	}
	sp, err := parseSigPacket(lenientPacketBytes(sig))
	if err != nil {
		// The bytes after the separator are not a JSON object the harness can read (or hold no packet
		// it can read).  The payload question is already decided above (P is a ledger payload of the
		// named key); the remaining question is only whether the signature text that follows the
		// separator is one of the ledger's, which can be read off the bytes: S runs up to the next '"'.
		rest := doc[i+len(sep):]
		if q := strings.IndexByte(rest, '"'); q >= 0 {
			rest = rest[:q]
		}
		if sp2, err2 := parseSigPacket(lenientPacketBytes(rest)); err2 == nil {
			for _, have := range sigs {
				if have == sp2 {
					r.Count("accepted_with_unreadable_signature_object_but_ledger_signature_text", 1)
					return
				}
			}
		}
		r.Inconclusive(fmt.Sprintf("accepted mutant %s carries a signature the harness cannot parse; cannot decide whether it is one of the ledger's", m.caseID()))
		return
	}
	for _, have := range sigs {
		if have == sp {
			return
		}
	}
	r.Violation("altered-signature-accepted/"+m.Class, fmt.Sprintf("Verify accepted a signature packet whose hashed portion or signature value differs from the %d signature(s) %s made over this payload", len(sigs), k.name), wit)
}

// run one mutant (not a valid document) through Verify, with bookkeeping.
func (c *checker) try(m *mut, t tally) {
	if c.only != "" && m.caseID() != c.only {
		return
	}
	if _, isValid := c.valid.Load(m.text); isValid {
		t["mutants_identical_to_valid_document"]++
		return
	}
	t["mutants_by_class/"+m.Class]++
	t["mutants_by_region/"+m.Region]++
	c.r.Distinct(m.text)
	acc, reason := c.submit(m, "")
	if acc {
		t["verified_mutants/"+m.Class+"/"+m.Region]++
		t["reached_signature_check/"+m.Region]++
		c.smu.Lock()
		if c.vsamples < 2 {
			c.vsamples++
			c.r.Sample(map[string]any{"kind": "mutant that still verifies (signature part changed, signed content not)", "case_id": m.caseID(), "class": m.Class, "region": m.Region, "mutant": m.text})
		}
		c.smu.Unlock()
		return
	}
	t["rejected/"+reason]++
	if reason == "bad signature" {
		t["reached_signature_check/"+m.Region]++
	}
}

func regionOf(d *docCase, pos int, insert bool) string {
	lt := len(d.T)
	switch {
	case pos < lt || (insert && pos == lt):
		return "payload"
	case pos < lt+len(sep):
		return "separator"
	}
	return "signature"
}

// positional runs every substitution / insertion / deletion / truncation at positions [lo,hi).
// With full set, every one of the 255 other byte values is substituted and all 256 are inserted.
func (c *checker) positional(d *docCase, lo, hi int, full bool) {
	t := tally{}
	defer c.flush(t)
	s := d.signed
	buf := make([]byte, 0, len(s)+1)
	for p := lo; p < hi; p++ {
		if p < len(s) {
			ch := s[p]
			reg := regionOf(d, p, false)
			ws := byte(' ')
			if ch == ' ' {
				ws = '\n'
			}
			vals := []byte{'"', '}', 'A', ws, ch ^ 1, ch ^ 0x20, ch ^ 0x80}
			if reg == "signature" {
				vals = append(vals, '=')
			} else {
				vals = append(vals, '0')
			}
			if full {
				vals = allBytes
			}
			var seen [256]bool
			seen[ch] = true
			for _, v := range vals {
				if seen[v] {
					continue
				}
				seen[v] = true
				buf = append(buf[:0], s...)
				buf[p] = v
				c.try(&mut{Doc: d.idx, Class: "subst", Region: reg, Pos: p, Val: int(v), text: string(buf)}, t)
			}
			buf = append(buf[:0], s[:p]...)
			buf = append(buf, s[p+1:]...)
			c.try(&mut{Doc: d.idx, Class: "delete", Region: reg, Pos: p, text: string(buf)}, t)
			c.try(&mut{Doc: d.idx, Class: "truncate", Region: reg, Pos: p, text: s[:p]}, t)
		}
		reg := regionOf(d, p, true)
		ins := []byte{'"', 'A', ' ', '}'}
		if p < len(s) {
			ins = append(ins, s[p])
		}
		if full {
			ins = allBytes
		}
		var seen [256]bool
		for _, v := range ins {
			if seen[v] {
				continue
			}
			seen[v] = true
			buf = append(buf[:0], s[:p]...)
			buf = append(buf, v)
			buf = append(buf, s[p:]...)
			c.try(&mut{Doc: d.idx, Class: "insert", Region: reg, Pos: p, Val: int(v), text: string(buf)}, t)
		}
	}
}

// packetBytes flips bits in every byte of the binary signature packet (every value for its first 16
// bytes) and repairs the armor checksum.
func (c *checker) packetBytes(d *docCase) {
	t := tally{}
	defer c.flush(t)
	for i := range d.packet {
		xors := []byte{0x01, 0x80, 0x10}
		if i < 16 {
			// packet header, version, signature type, algorithms, hashed-area length: every value
			xors = allBytes[1:]
		}
		for _, x := range xors {
			p := append([]byte(nil), d.packet...)
			p[i] ^= x
			c.try(&mut{Doc: d.idx, Class: "packet-byte", Region: "signature", Pos: i, Val: int(x), text: d.T + sep + encodeSig(p) + tail}, t)
		}
	}
}

// special runs the structured (non-positional) mutation classes.
func (c *checker) special(d *docCase) {
	t := tally{}
	defer c.flush(t)
	r := c.r
	n := map[string]int{}
	add := func(class, region, text string) {
		n[class]++
		c.try(&mut{Doc: d.idx, Class: class, Region: region, Pos: n[class], text: text}, t)
	}
	other := c.keys[1-d.key.idx]
	T, S := d.T, d.S
	body, crc := S[:len(S)-5], S[len(S)-4:]
	id := fmt.Sprintf("doc%d", d.idx)

	// a TEXT-mode signature by the named key: it covers the canonicalised text, so with it a payload
	// that differs from T only in line endings (bytes the key never signed) must not verify
	if strings.Contains(T, "\n") {
		if ts, err := textModeSig(d.key, T, d.sigTime); err == nil {
			crlf := strings.ReplaceAll(T, "\n", "\r\n")
			add("text-mode-sig", "payload", crlf+sep+ts+tail)
			i := strings.Index(T, "\n")
			add("text-mode-sig", "payload", T[:i]+"\r"+T[i:]+sep+ts+tail)
		} else {
			r.Inconclusive("cannot build a text-mode signature: " + err.Error())
		}
	}
	// signatures of other documents on this payload, and on a payload nobody signed
	fresh := T + fmt.Sprintf(`,"verifNonce":"n%d"`, d.idx)
	add("payload-extend", "payload", fresh+sep+S+tail)
	for _, off := range []int{1, 2, 3, 5, 8} {
		o := c.docs[(d.idx+off)%len(c.docs)]
		if o == d || o.S == "" {
			continue
		}
		add("transplant-sig", "signature", T+sep+o.S+tail)
		add("transplant-sig", "signature", fresh+sep+o.S+tail)
		// and this document's signature on the other payload shape: other payload, our signer line
		add("transplant-sig", "signature", T+sep+body+"="+o.S[len(o.S)-4:]+tail)
		add("double-sig", "signature", T+sep+o.S+`"`+sep+S+tail)
		add("double-sig", "signature", T+sep+S+`"`+sep+o.S+tail)
		add("armor-extend", "signature", T+sep+encodeSig(append(append([]byte(nil), o.packet...), d.packet...))+tail)
		add("armor-extend", "signature", T+sep+encodeSig(append(append([]byte(nil), d.packet...), o.packet...))+tail)
	}
	add("double-sig", "signature", T+sep+S+`"`+sep+S+tail)

	// the other key signs a document that names this key
	if c.only == "" || strings.HasPrefix(c.only, id+"/resign-other-key/") {
		for v, j := range []string{d.J, fresh + "}"} {
			signed, err := c.signAs(other, d.key.ref, j, d.sigTime)
			if err != nil {
				r.Inconclusive(fmt.Sprintf("%s: cannot sign with %s a document naming %s: %v", id, other.name, d.key.name, err))
				continue
			}
			if _, _, ok := c.checkSignOutput(fmt.Sprintf("%s/resign%d", id, v), other, false, j, signed); ok {
				add("resign-other-key", "signature", signed)
			}
		}
	}

	// signer reference swapped / damaged in an otherwise untouched document
	ref := d.key.ref
	last := ref[len(ref)-1]
	flip := byte('0')
	if last == '0' {
		flip = '1'
	}
	for _, nr := range []string{other.ref, ref[:len(ref)-1] + string(flip), "sha224-xyz", "", strings.ToUpper(ref), ref + "00",
		"sha1-" + ref[len("sha224-"):len("sha224-")+40]} {
		add("swap-signer", "payload", strings.ReplaceAll(T, ref, nr)+sep+S+tail)
	}

	// armor shortened
	for _, k := range []int{1, 2, 3, 4, 5, 6, 9, len(S) / 2, len(S) - 1, len(S)} {
		add("armor-truncate", "signature", T+sep+S[:len(S)-k]+tail)
	}
	for _, k := range []int{1, 4, 8} {
		add("armor-truncate", "signature", T+sep+S[k:]+tail)
		add("armor-truncate", "signature", T+sep+encodeSig(d.packet[:len(d.packet)-k])+tail)
	}
	add("armor-truncate", "signature", T+sep+"="+crc+tail)
	// armor lengthened / re-wrapped
	for _, x := range []string{"A", "=", "AAAA", " ", `\n`, `\u0041`, S, "=" + crc} {
		add("armor-extend", "signature", T+sep+S+x+tail)
	}
	add("armor-extend", "signature", T+sep+body+"AAAA="+crc+tail)
	add("armor-extend", "signature", T+sep+" "+S+tail)
	add("armor-extend", "signature", T+sep+body+`\n=`+crc+tail)
	add("armor-extend", "signature", T+sep+encodeSig(append(append([]byte(nil), d.packet...), 0))+tail)
	add("armor-extend", "signature", T+sep+encodeSig(append(append([]byte(nil), d.packet...), d.packet...))+tail)
	var wrapped strings.Builder
	for i := 0; i < len(body); i += 64 {
		wrapped.WriteString(body[i:min(i+64, len(body))])
		wrapped.WriteString(`\n`)
	}
	add("armor-extend", "signature", T+sep+wrapped.String()+"="+crc+tail)
	add("armor-extend", "signature", T+sep+strings.TrimRight(body, "=")+"="+crc+tail)

	// separator written differently
	for _, sv := range []string{`, "camliSig":"`, `,"camliSig": "`, `,"camlisig":"`, `,"camliSig":'`, `;"camliSig":"`, `,"camliSig" :"`,
		",\n\"camliSig\":\"", `,"camliSig":`, `"camliSig":"`, `,"camliSig":""`, `,"camliSigX":"`} {
		add("separator-variant", "separator", T+sv+S+tail)
	}
	// the signature object written differently
	for _, tv := range []string{"\" }\n", "\"}", "\"}\n\n", "\"}\r\n \t", `","x":1}` + "\n", "\"}}\n", "\"}garbage", "\"\n", "\",}\n", "\"}\x00", "\"}\n{}"} {
		add("sig-json-variant", "signature", T+sep+S+tv)
	}
	if i := strings.Index(T, "{"); i >= 0 {
		add("sig-json-variant", "signature", T[:i+1]+`"camliSig":"`+S+`",`+T[i+1:]+"}\n")
	}
	// members a forger appends after the signature (forge.go)
	c.membersAfterSignature(d, add)
	// not signed at all
	add("unsigned", "signature", d.J)
	add("unsigned", "signature", T+"}")
	add("unsigned", "signature", T)
	add("unsigned", "signature", T+sep+tail)
}

func run(r *ev.Run) {
	log.SetOutput(io.Discard)
	c := &checker{r: r, ctx: context.Background(), led: &ledger{m: map[string]map[string][]sigParts{}},
		byRef: map[string]*keyInfo{}, only: os.Getenv("VERIF_ONLY")}
	r.Assume("RSA/PKCS#1 v1.5 signatures of the two test keys are unforgeable: a document that verifies carries a signature the harness asked for")
	r.Assume("the signed payload of a document is, per doc/json-signing/README.md, the bytes before the last ',\"camliSig\":\"'; the signing input is the unsigned JSON minus trailing whitespace minus one '}'")
	r.Assume("the harness's own RFC 4880 reader (new/old packet headers, v4 signature, one MPI) defines what a signature packet signs: its hashed portion and the signature integer")
	for i, name := range []string{"test-secring.gpg", "test-secring2.gpg"} {
		s := hw.NewSigner(i + 1)
		k := &keyInfo{idx: i, name: fmt.Sprintf("key%d", i+1), s: s, ref: s.PubRef.String(), armored: string(s.Pub.Data),
			ring: filepath.Join(ev.RepoRoot(), "pkg", "jsonsign", "testdata", name)}
		c.keys = append(c.keys, k)
		c.byRef[k.ref] = k
	}
	c.fetcher = c.keys[0].s.KeyFetcher()
	if c.keys[0].s.KeyID == c.keys[1].s.KeyID {
		r.Inconclusive("the two test key rings hold the same key")
		return
	}

	// secret rings holding both entities: a key ring file is the concatenation of its entities' packets
	if b1, err1 := os.ReadFile(c.keys[0].ring); err1 == nil {
		if b2, err2 := os.ReadFile(c.keys[1].ring); err2 == nil {
			dir := ev.Scratch("c16-rings")
			defer os.RemoveAll(dir)
			for n, b := range [][]byte{append(append([]byte(nil), b1...), b2...), append(append([]byte(nil), b2...), b1...)} {
				f := filepath.Join(dir, fmt.Sprintf("both%d.gpg", n))
				if os.WriteFile(f, b, 0o600) == nil {
					c.multiRings = append(c.multiRings, f)
				}
			}
		}
	}
	if len(c.multiRings) != 2 {
		r.Inconclusive("cannot write the two-entity secret rings")
	}

	// ---- documents, signed (rule 1)
	nDocs := r.Pick(36, 220)
	nFull := r.Pick(1, 14) // documents (the shortest ones) that get all 256 byte values at every position
	rng := r.Rand("documents")
	g := &docGen{rng: rng}
	yearsSeen := map[int]bool{}
	years := []int{1990, 1995, 1999, 2000, 2001, 2004, 2009, 2012, 2016, 2019}
	for i := 0; i < nDocs; i++ {
		k := c.keys[(i/2)%2]
		sp := docSpec{style: i % styles, rawLook: i%2 == 0, leadWS: i%5 == 3, trailWS: i%4 == 1, wsBeforeEnd: i%3 == 2, signerRef: k.ref}
		if i%6 == 4 && len(c.docs) > 0 && c.docs[i-1].signed != "" {
			sp.embedSigned = c.docs[i-1].signed
		}
		j, feats := g.generate(sp)
		y := years[(i+rng.Intn(3))%len(years)]
		d := &docCase{idx: i, key: k, J: j, T: payloadOf(j), feats: feats, sigTime: hw.T(y, rng.Intn(365*86400))}
		c.docs = append(c.docs, d)
		id := fmt.Sprintf("doc%d", i)
		if !json.Valid([]byte(j)) {
			r.Inconclusive(id + ": generator produced invalid JSON")
			continue
		}
		var ok bool
		var err error
		signFn := func(t time.Time) (string, error) { return c.signAs(k, k.ref, j, t) }
		path := "EntityFetcher(single-entity ring)"
		if i%9 == 7 && len(c.multiRings) > 0 {
			ring := c.multiRings[(i/9)%len(c.multiRings)]
			path = "SecretKeyringPath(ring holding both keys)"
			signFn = func(t time.Time) (string, error) {
				sr := &jsonsign.SignRequest{UnsignedJSON: j, Fetcher: c.fetcher, ServerMode: true, SecretKeyringPath: ring, SignatureTime: t}
				return sr.Sign(c.ctx)
			}
		}
		if !r.Guard("Sign", map[string]any{"case_id": id, "unsigned": j}, func() { d.signed, err = signFn(d.sigTime) }) {
			if err != nil {
				r.Violation("sign-output/error", fmt.Sprintf("Sign refused a valid unsigned object: %v", err), map[string]any{"case_id": id, "unsigned": j})
				d.signed = ""
				continue
			}
			d.S, d.packet, ok = c.checkSignOutput(id, k, true, j, d.signed)
			if !ok {
				d.S, d.signed = "", ""
				continue
			}
			// "all signature times": the signature is made at the time the caller asked for
			c.checkSigTime("sign-output/signature-time", id, d.packet, d.sigTime, map[string]any{"case_id": id, "unsigned": j, "signed": d.signed, "signature_time": d.sigTime.Format(time.RFC3339)})
		}
		// the same object signed at another time is a second valid document
		// (the first documents get the edge-of-format times: zero value, the epoch, before it, beyond
		// 32-bit seconds; the signature format holds 32-bit seconds, so only representable times are
		// compared with what the signature states)
		t2 := hw.T(years[(i+5)%len(years)], 86400+rng.Intn(1000000))
		if i < len(edgeTimes) {
			t2 = edgeTimes[i].t
			r.Note("edge_signature_times", edgeTimes[i].name)
		}
		var s2 string
		if !r.Guard("Sign", map[string]any{"case_id": id + "/second-time", "unsigned": j}, func() { s2, err = signFn(t2) }) {
			if err != nil {
				r.Violation("sign-output/error", fmt.Sprintf("Sign at signature time %s refused a valid unsigned object: %v", t2.UTC().Format(time.RFC3339), err),
					map[string]any{"case_id": id + "/second-time", "unsigned": j, "signature_time": t2.UTC().Format(time.RFC3339)})
			} else if S2, p2, ok := c.checkSignOutput(id+"/second-time", k, true, j, s2); ok {
				d.signed2 = s2
				if S2 == d.S {
					r.Count("same_signature_for_two_times", 1)
				}
				if !t2.IsZero() && t2.Unix() >= 0 && t2.Unix() < 1<<32 {
					c.checkSigTime("sign-output/signature-time", id+"/second-time", p2, t2, map[string]any{"case_id": id + "/second-time", "unsigned": j, "signed": s2, "signature_time": t2.UTC().Format(time.RFC3339)})
				}
			}
		}
		r.Note("signing_paths", path)
		for _, f := range feats {
			r.Note("doc_features", f)
		}
		r.Note("signing_keys", k.name)
		r.Note("signature_years", fmt.Sprint(y))
		yearsSeen[y] = true
		r.Count("documents", 1)
		r.Count("document_bytes_total", len(d.signed))
		r.Distinct("valid:" + d.signed)
		if i < 3 {
			r.Sample(map[string]any{"kind": "document", "case_id": id, "features": feats, "signing_key": k.name, "signature_time": d.sigTime.Format(time.RFC3339), "unsigned": j, "signed": d.signed})
		}
	}

	// ---- documents signed by a key generated by perkeep itself
	if c.only == "" || strings.HasPrefix(c.only, "doc") {
		gdir := ev.Scratch("c16-genkey")
		defer os.RemoveAll(gdir)
		c.generatedKeyDocs(gdir, years)
	}

	// ---- documents whose signature a foreign OpenPGP implementation made with another digest
	// algorithm.  The property does not say that these verify (it speaks of what perkeep's signing
	// yields); it says that IF one verifies, its payload and signature are ones the named key made,
	// and that its tampered copies do not.  They go into the ledger and, when accepted, through
	// every mutation class like any other document.
	frng := r.Rand("foreign-digests")
	fg := &docGen{rng: frng}
	digests := []struct {
		name string
		h    crypto.Hash
	}{{"SHA1", crypto.SHA1}, {"SHA512", crypto.SHA512}, {"SHA1", crypto.SHA1}, {"SHA224", crypto.SHA224}, {"SHA384", crypto.SHA384}, {"SHA256", crypto.SHA256}}
	for n, dg := range digests[:r.Pick(3, len(digests))] {
		i := len(c.docs)
		k := c.keys[n%2]
		j, feats := fg.generate(docSpec{style: n % styles, rawLook: n%2 == 0, trailWS: n%2 == 1, signerRef: k.ref})
		d := &docCase{idx: i, key: k, J: j, T: payloadOf(j), feats: feats, sigTime: hw.T(years[n%len(years)], frng.Intn(365*86400))}
		c.docs = append(c.docs, d)
		id := fmt.Sprintf("doc%d", i)
		pkt, err := foreignBinarySig(k, d.T, d.sigTime, dg.h)
		if err != nil {
			r.Inconclusive(fmt.Sprintf("%s: cannot build a %s signature: %v", id, dg.name, err))
			continue
		}
		sp, err := parseSigPacket(pkt)
		if err != nil {
			r.Inconclusive(fmt.Sprintf("%s: the harness cannot read the %s signature packet it built", id, dg.name))
			continue
		}
		c.led.add(k.s.KeyID, d.T, sp)
		S := encodeSig(pkt)
		signed := d.T + sep + S + tail
		t := tally{}
		if c.only == "" || strings.HasPrefix(c.only, id+"/") {
			c.try(&mut{Doc: i, Class: "foreign-digest", Region: "signature", Pos: n, text: signed}, t)
		}
		verdict := "rejected"
		if t["verified_mutants/foreign-digest/signature"] > 0 || c.only != "" {
			// accepted (and judged by the ledger): a valid document from here on
			verdict = "accepted"
			c.valid.Store(signed, true)
			d.signed, d.S, d.packet = signed, S, pkt
			r.Count("documents", 1)
			r.Count("document_bytes_total", len(signed))
		}
		c.flush(t)
		r.Note("foreign_digest_documents", dg.name+":"+verdict)
		r.Note("foreign_digests_built", dg.name)
	}

	// ---- documents signed the way gpg signs (issuer only in the unhashed area), soundness only
	c.gpgStyleDocs(years)

	// ---- unsigned objects with further keys that are case variants of the reserved keys (rule 1)
	c.caseVariantDocs(years)

	// ---- documents naming a public key that cannot sign (RSA encrypt-only), soundness only
	c.cannotSignKeyDocs(years)

	// ---- signing through the DEFAULT secret ring (CAMLI_SECRET_RING / config dir), rule 1
	c.defaultRingDocs(years)

	// ---- unsigned objects with format-sensitive text (printf verbs, %%, escapes, long keys/values), rule 1
	c.formatSensitiveDocs(years)

	// ---- many callers signing at once through shared signing objects (rule 1 per caller)
	c.concurrentSigning()

	// ---- tampered claims handed to the consumers of verification (indexer, camli/sig/verify)
	c.consumers()

	// ---- mutants (rule 2), in parallel
	type job func()
	var jobs []job
	const chunk = 64
	byLen := append([]*docCase(nil), c.docs...)
	sort.SliceStable(byLen, func(i, j int) bool { return len(byLen[i].signed) < len(byLen[j].signed) })
	fullSet := map[int]bool{}
	for _, d := range byLen {
		if d.signed != "" && len(fullSet) < nFull {
			fullSet[d.idx] = true
			r.Count("documents_with_all_byte_values", 1)
		}
	}
	for _, d := range c.docs {
		d := d
		if d.signed == "" {
			continue
		}
		if c.only != "" && !strings.HasPrefix(c.only, fmt.Sprintf("doc%d/", d.idx)) {
			continue
		}
		for lo := 0; lo <= len(d.signed); lo += chunk {
			lo, hi := lo, min(lo+chunk, len(d.signed)+1)
			if fullSet[d.idx] {
				for p := lo; p < hi; p += 4 {
					p := p
					jobs = append(jobs, func() { c.positional(d, p, min(p+4, hi), true) })
				}
				continue
			}
			jobs = append(jobs, func() { c.positional(d, lo, hi, false) })
		}
		jobs = append(jobs, func() { c.packetBytes(d) }, func() { c.special(d) }, func() { c.crafted(d) }, func() { c.algoConfusion(d) })
	}
	ch := make(chan job)
	var wg sync.WaitGroup
	for w := 0; w < runtime.GOMAXPROCS(0); w++ {
		wg.Add(1)
		go func() {
			defer wg.Done()
			for j := range ch {
				j()
			}
		}()
	}
	for _, j := range jobs {
		ch <- j
	}
	close(ch)
	wg.Wait()

	r.Extra("ledger_entries", c.led.size())
	r.Extra("position_exhaustive", true)
	var verified int64
	byClass := map[string]int64{}
	for _, cl := range classes {
		for _, reg := range []string{"payload", "separator", "signature"} {
			n := r.Counter("verified_mutants/" + cl + "/" + reg)
			verified += n
			if n > 0 {
				byClass[cl+"/"+reg] = n
			}
		}
	}
	r.Extra("verified_mutants_total", verified)
	r.Extra("verified_mutants_by_class_region", byClass)
	if c.only == "" {
		r.Require("mutation_classes", classes...)
		r.Require("regions", "payload", "separator", "signature")
		r.Require("reached_signature_check", "payload", "signature")
		r.Require("doc_features", "compact", "indented", "odd-whitespace", "unicode", "nesting", "lookalike-escaped", "lookalike-raw",
			"embedded-signed-doc", "leading-ws", "trailing-ws", "ws-before-closing-brace")
		r.Require("signing_keys", "key1", "key2")
		r.Require("foreign_digests_built", "SHA1", "SHA512")
		r.Require("signing_paths", "EntityFetcher(single-entity ring)", "SecretKeyringPath(ring holding both keys)")
		var en []string
		for _, e := range edgeTimes {
			en = append(en, e.name)
		}
		r.Require("edge_signature_times", en...)
		// crafted signature packets: submitted to Verify (rejecting them is a conforming answer; an
		// accepted one had its reported signer compared with the named key in judge)
		r.Require("crafted_signature_variants", "unhashed-issuer-appended:other-key", "unhashed-issuer-prepended:other-key", "unhashed-issuer-only:other-key",
			"unhashed-issuer-fingerprint:other-key", "unhashed-issuer+fingerprint:other-key", "unhashed-issuer-appended:unknown-key", "unhashed-emptied",
			"header-old-2-octet-length", "header-new-5-octet-length")
		r.Require("case_variant_keys", "camliSigner:before", "camliSigner:after", "camliVersion:before", "camliVersion:after", "camliType:before", "camliType:after", "camliSig:any")
		r.Require("case_variant_signer_values", "other-key-ref:after", "other-key-ref:before", "free-text:after", "number:after", "null:after")
		r.Require("case_variant_signing_paths", cpNames...)
		r.Require("default_ring_signing_paths", drPaths...)
		r.Require("default_ring_signed", drPaths...)
		r.Require("format_sensitive_signing_paths", fpNames...)
		r.Require("format_sensitive_signed", fpNames...)
		r.Require("format_sensitive_content", fmtClassesRequired...)
		r.Require("default_ring_resolutions", "CAMLI_SECRET_RING(single-entity ring)", "CAMLI_CONFIG_DIR/identity-secring.gpg", "CAMLI_SECRET_RING(ring holding both keys)")
		// hand-written signature packets: the writer's positive control (algorithm 1, the named key's own
		// secret) was accepted, so the digest prefix the forgeries carry is the right one; the forgeries
		// stating another algorithm were submitted
		r.Require("handmade_signature_control", "accepted")
		r.Require("algo_confusion_algorithms", "algo-3-RSA-sign-only", "algo-17-DSA", "algo-19-ECDSA", "algo-2-RSA-encrypt-only", "algo-22-EdDSA")
		r.Require("algo_confusion_values", "value-attacker-rsa", "value-garbage", "value-copied-from-genuine")
		r.Require("cannot_sign_key_signature_algorithms", "1-RSA", "3-RSA-sign-only")
		if r.Counter("members_after_signature_documents") == 0 {
			r.Inconclusive("no document got members appended after its signature")
		}
		if len(yearsSeen) < 3 {
			r.Inconclusive("fewer than 3 distinct signature years")
		}
	}
}

// edgeTimes are signature times at the edges of what the signature format (32-bit seconds since
// 1970) and time.Time can say.
var edgeTimes = []struct {
	name string
	t    time.Time
}{
	{"zero-value", time.Time{}},
	{"epoch", time.Unix(0, 0)},
	{"one-second-before-epoch", time.Unix(-1, 0)},
	{"1950", time.Date(1950, 6, 1, 12, 0, 0, 0, time.UTC)},
	{"2038-overflow-of-int32", time.Unix(1<<31, 0)},
	{"last-32-bit-second", time.Unix(1<<32-1, 0)},
	{"beyond-32-bit-seconds", time.Unix(1<<32+5, 0)},
	{"sub-second-and-zone", time.Date(2011, 3, 4, 5, 6, 7, 999999999, time.FixedZone("x", -7*3600))},
}

var allBytes = func() []byte {
	b := make([]byte, 256)
	for i := range b {
		b[i] = byte(i)
	}
	return b
}()

var classes = []string{"text-mode-sig", "subst", "insert", "delete", "truncate", "packet-byte", "payload-extend", "transplant-sig", "double-sig",
	"resign-other-key", "swap-signer", "armor-truncate", "armor-extend", "separator-variant", "sig-json-variant", "unsigned", "foreign-digest",
	"sig-unhashed-edit", "sig-header-reencode", "foreign-unhashed-issuer",
	"members-after-signature", "algo-confusion", "handmade-signature", "named-key-cannot-sign"}
