package main

// Signing with the DEFAULT secret ring (rule 1).
//
// A SignRequest locates the private key in three ways: EntityFetcher, else
// SecretKeyringPath, else "as a final resort" the user's default secret ring
// (osutil.SecretRingFile: CAMLI_SECRET_RING, else identity-secring.gpg in the config
// directory, which CAMLI_CONFIG_DIR names).  A jsonsign handler configured without
// "secretRing" relies on the same fallback for POST camli/sig/sign and Handler.Sign.
// The property's first sentence quantifies over "any valid unsigned schema object"
// whatever way the signer finds its ring; this family signs through the fallback.
//
// The environment is process-global: the family runs in the sequential part of the run,
// sets CAMLI_SECRET_RING / CAMLI_CONFIG_DIR around each group of calls and restores them.

import (
	"fmt"
	"net/http"
	"os"
	"path/filepath"
	"time"

	"perkeep.org/pkg/blob"
	"perkeep.org/pkg/blobserver"
	"perkeep.org/pkg/blobserver/memory"
	"perkeep.org/pkg/jsonsign"
	"perkeep.org/pkg/jsonsign/signhandler"
	"perkeep.org/pkg/schema"

	"verif.local/harness/ev"
	"verif.local/harness/hw"
	"verif.local/harness/sto"
)

const (
	drSignRequest = "SignRequest(no EntityFetcher, no SecretKeyringPath)"
	drHelperPost  = "signhandler without secretRing:POST camli/sig/sign"
	drHelperSign  = "signhandler without secretRing:Handler.Sign"
	drHelperSgnr  = "signhandler without secretRing:Signer().SignJSON"
)

var drPaths = []string{drSignRequest, drHelperPost, drHelperSign, drHelperSgnr}

// withEnv runs fn with the given variables set ("" = unset) and restores the old state.
func withEnv(vars map[string]string, fn func()) {
	type old struct {
		v   string
		set bool
	}
	saved := map[string]old{}
	for k, v := range vars {
		ov, ok := os.LookupEnv(k)
		saved[k] = old{ov, ok}
		if v == "" {
			os.Unsetenv(k)
		} else {
			os.Setenv(k, v)
		}
	}
	defer func() {
		for k, o := range saved {
			if o.set {
				os.Setenv(k, o.v)
			} else {
				os.Unsetenv(k)
			}
		}
	}()
	fn()
}

func (c *checker) defaultRingDocs(years []int) {
	r := c.r
	if c.only != "" {
		return
	}
	rng := r.Rand("default-secret-ring")
	g := &docGen{rng: rng}
	dir := ev.Scratch("c16-default-ring")
	defer os.RemoveAll(dir)

	// how the default resolves: (name, environment, which keys the ring holds)
	type resolution struct {
		name string
		env  map[string]string
		keys []*keyInfo
	}
	var ress []resolution
	for _, k := range c.keys {
		ress = append(ress, resolution{"CAMLI_SECRET_RING(single-entity ring)", map[string]string{"CAMLI_SECRET_RING": k.ring, "CAMLI_CONFIG_DIR": filepath.Join(dir, "no-such-config-dir")}, []*keyInfo{k}})
	}
	for n, k := range c.keys {
		cfg := filepath.Join(dir, fmt.Sprintf("config%d", n))
		b, err := os.ReadFile(k.ring)
		if err != nil || os.MkdirAll(cfg, 0o700) != nil || os.WriteFile(filepath.Join(cfg, "identity-secring.gpg"), b, 0o600) != nil {
			r.Inconclusive("cannot write a config directory with an identity-secring.gpg")
			return
		}
		ress = append(ress, resolution{"CAMLI_CONFIG_DIR/identity-secring.gpg", map[string]string{"CAMLI_SECRET_RING": "", "CAMLI_CONFIG_DIR": cfg}, []*keyInfo{k}})
	}
	for _, ring := range c.multiRings {
		ress = append(ress, resolution{"CAMLI_SECRET_RING(ring holding both keys)", map[string]string{"CAMLI_SECRET_RING": ring, "CAMLI_CONFIG_DIR": filepath.Join(dir, "no-such-config-dir")}, c.keys})
	}

	perCell := r.Pick(2, 6)
	n := 0
	for ri, res := range ress {
		for _, k := range res.keys {
			withEnv(res.env, func() {
				// a low-level jsonsign handler configured WITHOUT "secretRing"
				var helper http.Handler
				ld := sto.NewLoader()
				ld.Set("/c16-pubkeys/", &memory.Storage{})
				var herr error
				if r.Guard("CreateHandler", map[string]any{"case_id": "defring-handler", "resolution": res.name}, func() {
					helper, herr = blobserver.CreateHandler("jsonsign", ld, map[string]any{"keyId": k.s.KeyID, "publicKeyDest": "/c16-pubkeys/"})
				}) {
					return
				}
				r.Eval(1)
				if herr != nil {
					r.Violation("sign-output/error/default-secret-ring", fmt.Sprintf("a jsonsign handler configured without \"secretRing\" cannot be created though the default secret ring (%s) holds key %s: %v", res.name, k.s.KeyID, herr),
						map[string]any{"case_id": "defring-handler", "resolution": res.name, "environment": res.env, "signing_key": k.name})
					helper = nil
				}
				for pi, path := range drPaths {
					if helper == nil && path != drSignRequest {
						continue
					}
					for rep := 0; rep < perCell; rep++ {
						n++
						id := fmt.Sprintf("defring%d", n)
						style := (n + ri + pi) % styles
						j, feats := g.generate(docSpec{style: style, rawLook: n%3 == 0, trailWS: n%4 == 1, wsBeforeEnd: n%5 == 2, signerRef: k.ref})
						sigTime := hw.T(years[n%len(years)], rng.Intn(365*86400))
						wit := map[string]any{"case_id": id, "unsigned": j, "signing_path": path, "default_ring_resolution": res.name, "environment": res.env, "signing_key": k.name}
						var signed string
						var err error
						timed := true
						if r.Guard("Sign", wit, func() {
							switch path {
							case drSignRequest:
								signed, err = (&jsonsign.SignRequest{UnsignedJSON: j, Fetcher: c.fetcher, ServerMode: true, SignatureTime: sigTime}).Sign(c.ctx)
							case drHelperPost:
								timed = false
								code, body := sigPost(helper, "camli/sig/sign", "json", j)
								if code != 200 {
									err = fmt.Errorf("HTTP %d %s", code, truncateStr(body, 200))
								}
								signed = body
							case drHelperSign:
								// vivify path: the handler sets camliSigner itself and signs at the claim date
								bb := schema.NewSetAttributeClaim(blob.MustParse(k.ref), fmt.Sprintf("c16-attr-%d", n), fmt.Sprintf("value %d é\",\"camliSig\":\"x", rng.Intn(1<<20)))
								bb.SetClaimDate(sigTime)
								feats = nil
								signed, err = helper.(*signhandler.Handler).Sign(c.ctx, bb)
								// the object the handler signed: the builder after its SetSigner
								if uj, jerr := bb.JSON(); jerr == nil {
									j = uj
									wit["unsigned"] = j
								} else if err == nil {
									err = jerr
								}
							case drHelperSgnr:
								signed, err = helper.(*signhandler.Handler).Signer().SignJSON(c.ctx, j, sigTime)
							}
						}) {
							continue
						}
						r.Eval(1)
						r.Note("default_ring_signing_paths", path)
						r.Note("default_ring_resolutions", res.name)
						r.Note("default_ring_cells", res.name+" x "+path)
						r.Count("default_ring_documents", 1)
						if err != nil {
							r.Violation("sign-output/error/default-secret-ring", fmt.Sprintf("Sign (%s; default secret ring resolved through %s, it holds key %s) refused a valid unsigned object: %v", path, res.name, k.s.KeyID, err), wit)
							continue
						}
						_, packet, ok := c.checkSignOutput(id, k, true, j, signed)
						if !ok {
							continue
						}
						if timed {
							c.checkSigTime("sign-output/signature-time", id, packet, sigTime.Truncate(time.Second), map[string]any{"case_id": id, "unsigned": j, "signed": signed, "signing_path": path})
						}
						r.Note("default_ring_signed", path)
						r.Count("documents", 1)
						r.Count("document_bytes_total", len(signed))
						r.Distinct("valid:" + signed)
						for _, f := range feats {
							r.Note("doc_features", f)
						}
						if n <= 2 {
							r.Sample(map[string]any{"kind": "document signed with the default secret ring", "case_id": id, "signing_path": path, "default_ring_resolution": res.name, "unsigned": j, "signed": signed})
						}
					}
				}
			})
		}
	}
}
