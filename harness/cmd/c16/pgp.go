package main

// Independent (harness-side) reading of the signature part of a camli-signed
// document: single-line armor -> OpenPGP packet bytes -> the portion of a v4
// signature packet that determines what it signs.  Written from RFC 4880
// (sections 4.2, 5.2.3, 6.1), not from golang.org/x/crypto/openpgp.

import (
	"encoding/base64"
	"errors"
	"math/big"
	"strings"
)

// crc24 is the armor checksum of RFC 4880 section 6.1.
func crc24(b []byte) uint32 {
	crc := uint32(0xB704CE)
	for _, c := range b {
		crc ^= uint32(c) << 16
		for i := 0; i < 8; i++ {
			crc <<= 1
			if crc&0x1000000 != 0 {
				crc ^= 0x1864CFB
			}
		}
	}
	return crc & 0xFFFFFF
}

// encodeSig builds the single-line form "<base64 packet>=<base64 crc24>".
func encodeSig(packet []byte) string {
	c := crc24(packet)
	return base64.StdEncoding.EncodeToString(packet) + "=" +
		base64.StdEncoding.EncodeToString([]byte{byte(c >> 16), byte(c >> 8), byte(c)})
}

// splitSig splits a well-formed single-line signature (as produced by Sign)
// into its packet bytes and the checksum text; ok is false if it is not in
// the documented form.
func splitSig(s string) (packet []byte, crc string, ok bool) {
	if len(s) < 6 || s[len(s)-5] != '=' {
		return nil, "", false
	}
	body, crc := s[:len(s)-5], s[len(s)-4:]
	p, err := base64.StdEncoding.DecodeString(body)
	if err != nil {
		return nil, "", false
	}
	c, err := base64.StdEncoding.DecodeString(crc)
	if err != nil || len(c) != 3 {
		return nil, "", false
	}
	if uint32(c[0])<<16|uint32(c[1])<<8|uint32(c[2]) != crc24(p) {
		return nil, "", false
	}
	return p, crc, true
}

// lenientPacketBytes decodes as much of a (possibly mutated) single-line
// signature as any base64 reader could deliver: whitespace is skipped and
// decoding stops at the first '=' or non-alphabet byte.
func lenientPacketBytes(s string) []byte {
	var sb strings.Builder
loop:
	for i := 0; i < len(s); i++ {
		c := s[i]
		switch {
		case c == ' ' || c == '\t' || c == '\r' || c == '\n':
			continue
		case c >= 'A' && c <= 'Z', c >= 'a' && c <= 'z', c >= '0' && c <= '9', c == '+', c == '/':
			sb.WriteByte(c)
		default:
			break loop
		}
	}
	t := sb.String()
	if len(t)%4 == 1 {
		t = t[:len(t)-1]
	}
	b, err := base64.RawStdEncoding.DecodeString(t)
	if err != nil {
		// non-zero trailing bits in the last partial quantum: drop it
		t = t[:len(t)/4*4]
		b, _ = base64.RawStdEncoding.DecodeString(t)
	}
	return b
}

// sigParts is what a v4 signature packet signs with (the hashed portion that
// enters the digest: version, type, algorithms, hashed subpackets) plus the
// signature value itself as an integer.
type sigParts struct {
	hashed string
	value  string // big-endian integer, leading zeros stripped, hex
}

var errUndecidable = errors.New("cannot parse signature packet")

// parseSigPacket reads the first packet of b, which must be a v4 signature
// packet with a single MPI (RSA).
func parseSigPacket(b []byte) (sp sigParts, err error) {
	if len(b) < 2 || b[0]&0x80 == 0 {
		return sp, errUndecidable
	}
	var tag byte
	var off, n int
	if b[0]&0x40 != 0 { // new format
		tag = b[0] & 0x3f
		l0 := int(b[1])
		switch {
		case l0 < 192:
			n, off = l0, 2
		case l0 < 224:
			if len(b) < 3 {
				return sp, errUndecidable
			}
			n, off = (l0-192)<<8+int(b[2])+192, 3
		case l0 == 255:
			if len(b) < 6 {
				return sp, errUndecidable
			}
			n, off = int(b[2])<<24|int(b[3])<<16|int(b[4])<<8|int(b[5]), 6
		default: // partial body lengths
			return sp, errUndecidable
		}
	} else {
		tag = (b[0] & 0x3c) >> 2
		switch b[0] & 3 {
		case 0:
			n, off = int(b[1]), 2
		case 1:
			if len(b) < 3 {
				return sp, errUndecidable
			}
			n, off = int(b[1])<<8|int(b[2]), 3
		case 2:
			if len(b) < 5 {
				return sp, errUndecidable
			}
			n, off = int(b[1])<<24|int(b[2])<<16|int(b[3])<<8|int(b[4]), 5
		default:
			n, off = len(b)-1, 1
		}
	}
	if tag != 2 || n < 0 || off > len(b) {
		return sp, errUndecidable
	}
	// A declared length beyond the available bytes cannot add content: no reader
	// can deliver more than what is there.
	body := b[off:min(off+n, len(b))]
	if len(body) < 6 || body[0] != 4 {
		return sp, errUndecidable
	}
	hl := int(body[4])<<8 | int(body[5])
	if 6+hl+2 > len(body) {
		return sp, errUndecidable
	}
	sp.hashed = string(body[:6+hl])
	p := 6 + hl
	ul := int(body[p])<<8 | int(body[p+1])
	p += 2 + ul
	p += 2 // left 16 bits of the digest
	if p+2 > len(body) {
		return sp, errUndecidable
	}
	bits := int(body[p])<<8 | int(body[p+1])
	p += 2
	nb := (bits + 7) / 8
	if p+nb > len(body) {
		return sp, errUndecidable
	}
	sp.value = new(big.Int).SetBytes(body[p : p+nb]).Text(16)
	return sp, nil
}
