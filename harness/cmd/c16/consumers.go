package main

// Consumers of verification.
//
// "Verification succeeds only if ..." matters where a verdict is acted upon: the indexer, which
// trusts a claim only after verifying it (pkg/index/receive.go), and the signing helper's
// camli/sig/verify endpoint, whose answer clients act upon.  Tampered copies of real claims
// (attribute claim, delete claim) are handed to both; neither may treat a forged one as verified.
// The positive control is the untampered claim: it must be indexed / reported valid, otherwise
// nothing was learned and the family is inconclusive.

import (
	"encoding/json"
	"fmt"
	"net/http"
	"net/http/httptest"
	"net/url"
	"reflect"
	"strings"
	"time"

	"perkeep.org/pkg/blob"
	"perkeep.org/pkg/blobserver"
	"perkeep.org/pkg/blobserver/memory"
	"perkeep.org/pkg/jsonsign/signhandler"
	"perkeep.org/pkg/schema"

	"verif.local/harness/hw"
	"verif.local/harness/sto"
)

// allowed is the ledger rule as a predicate: may a document with these bytes verify at all?
// (Same reading as judge: payload = bytes before the last separator, signed by the key it names,
// carrying one of the signatures that key made over it.)
func (c *checker) allowed(doc string) bool {
	i := strings.LastIndex(doc, sep)
	if i < 0 {
		return false
	}
	P := doc[:i]
	var pm map[string]any
	if json.Unmarshal([]byte(P+"}"), &pm) != nil {
		return false
	}
	signer, _ := pm["camliSigner"].(string)
	k := c.byRef[signer]
	if k == nil {
		return false
	}
	sigs, ok := c.led.get(k.s.KeyID, P)
	if !ok {
		return false
	}
	if extra, _, readable := unsignedMembers(doc); readable && len(extra) > 0 {
		// members after the signature that nothing covers (forge.go)
		return false
	}
	var sm map[string]any
	sig := ""
	if json.Unmarshal([]byte("{"+doc[i+1:]), &sm) == nil {
		sig, _ = sm["camliSig"].(string)
	}
	sp, err := parseSigPacket(lenientPacketBytes(sig))
	if err != nil {
		// as in judge: read the signature text off the bytes
		rest := doc[i+len(sep):]
		if q := strings.IndexByte(rest, '"'); q >= 0 {
			rest = rest[:q]
		}
		if sp, err = parseSigPacket(lenientPacketBytes(rest)); err != nil {
			return false
		}
	}
	for _, have := range sigs {
		if have == sp {
			return true
		}
	}
	return false
}

type consMutant struct {
	class string
	text  string
}

// consBase is one genuine signed claim and what a forger would like to change in it.
type consBase struct {
	name     string
	J        string
	flipFrom string
	flipTo   string
	t        time.Time
}

func (c *checker) sigHandler(k *keyInfo) (http.Handler, error) {
	ld := sto.NewLoader()
	ld.Set("/c16-pubkeys/", &memory.Storage{})
	return blobserver.CreateHandler("jsonsign", ld, map[string]any{
		"keyId": k.s.KeyID, "secretRing": k.ring, "publicKeyDest": "/c16-pubkeys/"})
}

func sigPost(h http.Handler, suffix, field, value string) (int, string) {
	form := url.Values{field: {value}}
	req := httptest.NewRequest("POST", "/sighelper/"+suffix, strings.NewReader(form.Encode()))
	req.Header.Set("Content-Type", "application/x-www-form-urlencoded")
	// what the server's prefix handler sets for the handler mounted at /sighelper/
	req.Header.Set("X-PrefixHandler-PathBase", "/sighelper/")
	req.Header.Set("X-PrefixHandler-PathSuffix", suffix)
	rec := httptest.NewRecorder()
	h.ServeHTTP(rec, req)
	return rec.Code, rec.Body.String()
}

func rowPrefix(row string) string {
	key := row
	if i := strings.IndexByte(key, 0); i >= 0 {
		key = key[:i]
	}
	if i := strings.IndexAny(key, "|:"); i >= 0 {
		return key[:i]
	}
	return key
}

// indexRowsAdded delivers text as a blob to a fresh index that already holds both public keys and
// the given genuine blobs, and returns the rows that the delivery added.
func indexRowsAdded(keys []*keyInfo, pre []sto.Blob, text string) (added []string, err error) {
	x, err := hw.NewIdx(nil, nil, false)
	if err != nil {
		return nil, err
	}
	for _, k := range keys {
		if err := x.Deliver(k.s.Pub); err != nil {
			return nil, err
		}
	}
	for _, b := range pre {
		if err := x.Deliver(b); err != nil {
			return nil, fmt.Errorf("genuine blob %v refused: %v", b.Ref, err)
		}
	}
	x.Quiesce()
	before, err := hw.Dump(x.KV)
	if err != nil {
		return nil, err
	}
	had := map[string]bool{}
	for _, r := range before {
		had[r] = true
	}
	x.Deliver(sto.FromBytes([]byte(text))) // a refusal is a fine answer
	x.Quiesce()
	after, err := hw.Dump(x.KV)
	if err != nil {
		return nil, err
	}
	for _, r := range after {
		if !had[r] {
			added = append(added, r)
		}
	}
	return added, nil
}

func (c *checker) consumers() {
	r := c.r
	if c.only != "" && !strings.HasPrefix(c.only, "cons/") {
		return
	}
	for _, k := range c.keys {
		other := c.keys[1-k.idx]
		h, err := c.sigHandler(k)
		if err != nil {
			r.Inconclusive("cannot construct the signing helper handler: " + err.Error())
			return
		}
		pn := k.s.Permanode("c16-consumers-" + k.name)
		pn2 := k.s.Permanode("c16-consumers-second-" + k.name)
		t := hw.T(2012, 86400*40+k.idx)
		mk := func(b *schema.Builder) string {
			b.SetClaimDate(t)
			b.SetSigner(blob.MustParse(k.ref))
			j, err := b.JSON()
			if err != nil {
				panic(err)
			}
			return j
		}
		bases := []consBase{
			{"set-attribute", mk(schema.NewSetAttributeClaim(pn.Ref, "title", "the original value")), "the original value", "another value 12345", t},
			{"delete", mk(schema.NewDeleteClaim(pn.Ref)), pn.Ref.String(), pn2.Ref.String(), t},
		}
		// a second genuine claim of the same key, to lend its signature
		lendJ := mk(schema.NewAddAttributeClaim(pn.Ref, "tag", "lender"))
		lendSigned, err := c.signAs(k, k.ref, lendJ, t)
		if err != nil {
			r.Inconclusive("consumers: cannot sign: " + err.Error())
			return
		}
		lendS, lendPacket, ok := c.checkSignOutput("cons/"+k.name+"/lender", k, true, lendJ, lendSigned)
		if !ok {
			continue
		}
		for _, b := range bases {
			id := "cons/" + k.name + "/" + b.name
			signed, err := c.signAs(k, k.ref, b.J, b.t)
			if err != nil {
				r.Violation("sign-output/error", fmt.Sprintf("Sign refused a valid claim: %v", err), map[string]any{"case_id": id, "unsigned": b.J})
				continue
			}
			S, packet, ok := c.checkSignOutput(id, k, true, b.J, signed)
			if !ok {
				continue
			}
			T := payloadOf(b.J)
			pre := []sto.Blob{pn, pn2}

			// ---- positive controls
			validRows, err := indexRowsAdded(c.keys, pre, signed)
			if err != nil {
				r.Inconclusive("consumers: index: " + err.Error())
				continue
			}
			trust := map[string]bool{}
			for _, row := range validRows {
				if p := rowPrefix(row); p != "have" && p != "meta" {
					trust[p] = true
				}
			}
			r.Eval(1)
			if !trust["claim"] {
				r.Inconclusive(fmt.Sprintf("%s: positive control failed: a validly signed %s claim delivered to the index produced no claim row (rows added: %d)", id, b.name, len(validRows)))
				continue
			}
			r.Note("consumer_positive_controls", "index:"+b.name)
			code, body := sigPost(h, "camli/sig/verify", "sjson", signed)
			var vres struct {
				SignatureValid bool           `json:"signatureValid"`
				SignerKeyId    string         `json:"signerKeyId"`
				VerifiedData   map[string]any `json:"verifiedData"`
				ErrorMessage   string         `json:"errorMessage"`
			}
			var want map[string]any
			json.Unmarshal([]byte(b.J), &want)
			r.Eval(1)
			if err := json.Unmarshal([]byte(body), &vres); err != nil || code != 200 || !vres.SignatureValid {
				r.Violation("consumer/sigverify-rejects-valid", fmt.Sprintf("%s: camli/sig/verify answered HTTP %d %q for a validly signed claim", id, code, truncateStr(body, 200)),
					map[string]any{"case_id": id, "signed": signed})
				continue
			}
			if vres.SignerKeyId != k.s.KeyID || !reflect.DeepEqual(vres.VerifiedData, want) {
				r.Violation("consumer/sigverify-wrong-data", fmt.Sprintf("%s: camli/sig/verify reports signer %q data %v for a claim by %s with fields %v", id, vres.SignerKeyId, vres.VerifiedData, k.s.KeyID, want),
					map[string]any{"case_id": id, "signed": signed})
			}
			r.Note("consumer_positive_controls", "sigverify:"+b.name)

			// ---- tampered copies
			var ms []consMutant
			add := func(class, text string) { ms = append(ms, consMutant{class, text}) }
			add("payload-flip", strings.Replace(T, b.flipFrom, b.flipTo, 1)+sep+S+tail)
			add("payload-extend", T+`,"extra":"x"`+sep+S+tail)
			add("swap-signer", strings.ReplaceAll(T, k.ref, other.ref)+sep+S+tail)
			for v, j := range []string{b.J, strings.Replace(b.J, b.flipFrom, b.flipTo, 1)} {
				if rs, err := c.signAs(other, k.ref, j, b.t); err == nil {
					if _, _, ok := c.checkSignOutput(fmt.Sprintf("%s/resign%d", id, v), other, false, j, rs); ok {
						add("resign-other-key", rs)
					}
				}
			}
			if strings.Contains(T, "\n") {
				if ts, err := textModeSig(k, T, b.t); err == nil {
					add("text-mode-sig", strings.ReplaceAll(T, "\n", "\r\n")+sep+ts+tail)
				}
			}
			add("transplant-sig", T+sep+lendS+tail)
			add("transplant-sig", strings.Replace(T, b.flipFrom, b.flipTo, 1)+sep+lendS+tail)
			add("double-sig", T+sep+lendS+`"`+sep+S+tail)
			add("double-sig", T+sep+S+`"`+sep+lendS+tail)
			add("armor-extend", T+sep+encodeSig(append(append([]byte(nil), lendPacket...), packet...))+tail)
			for _, at := range []int{3, 8, 12, len(packet) / 2, len(packet) - 1} {
				p := append([]byte(nil), packet...)
				p[at] ^= 0x01
				add("packet-byte", T+sep+encodeSig(p)+tail)
			}
			add("armor-truncate", T+sep+S[:len(S)-9]+tail)
			add("armor-truncate", T+sep+tail)
			add("separator-variant", T+`, "camliSig":"`+S+tail)
			add("unsigned", b.J)
			add("unsigned", T+"}")
			// members appended after the signature: payload and signature untouched, but a JSON reader
			// of the blob (the indexer's schema parser) sees the appended values
			for _, x := range []string{`,"value":"evil"`, `, "claimType": "del-attribute"`, `,"permaNode":"` + pn2.Ref.String() + `"`, `,"target":"` + pn2.Ref.String() + `"`,
				`,"claimDate":"2031-01-01T00:00:00Z"`, `,"camliType":"permanode"`, `,"x":{"y":1}`, ` , "attribute" : "tag" , "value" : "evil" `} {
				add("members-after-signature", T+sep+S+`"`+x+"}\n")
			}
			// a signature packet by the other key that states another public-key algorithm (forge.go)
			var origValue []byte
			if l, ok := layoutOf(packet); ok && len(l.rest) > 4 {
				origValue = l.rest[4:]
			}
			flipped := strings.Replace(T, b.flipFrom, b.flipTo, 1)
			for fn, f := range c.algoForgeries(flipped, k, []*keyInfo{other}, b.t, origValue, len(id)) {
				if strings.HasPrefix(f.name, "algo-3-") || strings.HasPrefix(f.name, "algo-17-") || fn%7 == 0 {
					add("algo-confusion", flipped+sep+encodeSig(f.packet)+tail)
				}
			}
			for _, f := range c.algoForgeries(T, k, []*keyInfo{other}, b.t, origValue, len(id)) {
				if strings.HasPrefix(f.name, "algo-3-RSA-sign-only/SHA256/issuer-victim/") {
					add("algo-confusion", T+sep+encodeSig(f.packet)+tail)
				}
			}
			step := max(1, len(signed)/64)
			for p := 0; p < len(signed); p += step {
				bs := []byte(signed)
				bs[p] ^= 0x01
				add("subst", string(bs))
				add("delete", signed[:p]+signed[p+1:])
			}

			for n, m := range ms {
				mid := fmt.Sprintf("%s/%s/%d", id, m.class, n)
				if m.text == "" {
					continue
				}
				if _, isValid := c.valid.Load(m.text); isValid || c.allowed(m.text) {
					r.Count("consumer_mutants_that_may_verify", 1)
					continue
				}
				wit := map[string]any{"case_id": mid, "class": m.class, "genuine": signed, "mutant_text": m.text, "mutant_bytes": []byte(m.text)}
				r.Count("consumer_mutants", 1)
				r.Count("consumer_mutants/"+m.class, 1)
				r.Note("consumer_mutation_classes", m.class)
				r.Distinct("cons:" + m.text)
				// the indexer
				r.Eval(1)
				rows, err := indexRowsAdded(c.keys, pre, m.text)
				if err != nil {
					r.Inconclusive("consumers: index: " + err.Error())
				} else {
					for _, row := range rows {
						if trust[rowPrefix(row)] {
							r.Violation("consumer/index-trusts-forged-claim/"+m.class, fmt.Sprintf("%s: the index wrote row %q for a %s claim that is not validly signed (%s)", mid, truncateStr(strings.ReplaceAll(row, "\x00", " = "), 160), b.name, m.class), wit)
							break
						}
					}
					r.Count("consumer_index_deliveries", 1)
				}
				// the signing helper's verify endpoint
				r.Eval(1)
				code, body := sigPost(h, "camli/sig/verify", "sjson", m.text)
				var res struct {
					SignatureValid bool `json:"signatureValid"`
				}
				if code == 200 && json.Unmarshal([]byte(body), &res) == nil && res.SignatureValid {
					r.Violation("consumer/sigverify-accepts-forged/"+m.class, fmt.Sprintf("%s: camli/sig/verify answered signatureValid=true for a document that is not validly signed (%s): %s", mid, m.class, truncateStr(body, 200)), wit)
				}
				r.Count("consumer_sigverify_posts", 1)
			}
			// ---- copies whose signature packet was rewritten where the signature does not cover it
			// (craft.go).  They may verify; whoever acts on the verdict must then still attribute the
			// claim to the key it names, never to the key an unhashed issuer subpacket points to.
			c.craftedConsumers(id, h, k, b, signed, packet, pre, validRows, want)
		}

		// ---- the signing helper's sign endpoint and builder entry point (rule 1)
		for n := 0; n < 3; n++ {
			id := fmt.Sprintf("cons/%s/sighelper-sign/%d", k.name, n)
			j := fmt.Sprintf("{\"camliVersion\": 1,\n  \"camliSigner\": %q,\n  \"camliType\": \"claim\", \"n\": %d, \"u\": \"h\u00e9 \\u65e5\"}\n", k.ref, n)
			code, body := sigPost(h, "camli/sig/sign", "json", j)
			r.Eval(1)
			if code != 200 {
				r.Violation("sign-output/error", fmt.Sprintf("%s: camli/sig/sign answered HTTP %d %q for a valid object", id, code, truncateStr(body, 200)), map[string]any{"case_id": id, "unsigned": j})
				continue
			}
			c.checkSignOutput(id, k, true, j, body)
			r.Count("consumer_sighelper_signs", 1)
		}
		if sh, ok := h.(*signhandler.Handler); ok {
			id := fmt.Sprintf("cons/%s/sighelper-sign-builder", k.name)
			bb := schema.NewSetAttributeClaim(k.s.Permanode("c16-consumers-"+k.name).Ref, "title", "via handler")
			ct := hw.T(2009, 12345+k.idx)
			bb.SetClaimDate(ct)
			bb.SetSigner(blob.MustParse(k.ref)) // the handler's own key: Sign sets the same signer again
			j, jerr := bb.JSON()
			signed, err := sh.Sign(c.ctx, bb)
			if err != nil {
				r.Violation("sign-output/error", fmt.Sprintf("%s: signhandler.Sign refused a claim: %v", id, err), map[string]any{"case_id": id})
			} else if jerr == nil {
				if _, _, ok := c.checkSignOutput(id, k, true, j, signed); ok {
					r.Count("consumer_sighelper_signs", 1)
				}
			}
		}
	}
	if c.only == "" {
		r.Require("consumer_positive_controls", "index:set-attribute", "index:delete", "sigverify:set-attribute", "sigverify:delete")
		r.Require("consumer_crafted_variants", "unhashed-issuer-appended:other-key", "unhashed-issuer-prepended:other-key", "unhashed-issuer-only:other-key", "unhashed-issuer+fingerprint:other-key")
		r.Require("consumer_mutation_classes", "payload-flip", "payload-extend", "swap-signer", "resign-other-key", "text-mode-sig", "transplant-sig", "double-sig", "packet-byte", "armor-truncate", "unsigned", "subst", "delete",
			"members-after-signature", "algo-confusion")
	}
}

func truncateStr(s string, n int) string {
	if len(s) > n {
		return s[:n] + "..."
	}
	return s
}

// craftedConsumers hands crafted-signature copies of one genuine claim to the consumers.
//
// Oracle: a copy may be refused.  If camli/sig/verify calls it valid, the signer it reports is the
// key the claim names and the verified data are the claim's fields.  If the index accepts it
// (writes claim rows), no row it adds mentions the key id of a key that did not sign it, and the
// signer the index has on record for the claim's camliSigner blob is still that blob's key.
func (c *checker) craftedConsumers(id string, h http.Handler, k *keyInfo, b consBase, signed string, packet []byte, pre []sto.Blob, validRows []string, want map[string]any) {
	r := c.r
	others := c.othersOf(k)
	vs, err := craftVariants(packet, k, others, len(id))
	if err != nil {
		r.Inconclusive(id + ": " + err.Error())
		return
	}
	T := payloadOf(b.J)
	genuineRef := blob.RefFromString(signed).String()
	norm := func(rows []string, ref string) map[string]bool {
		m := map[string]bool{}
		for _, row := range rows {
			if p := rowPrefix(row); p == "have" || p == "meta" {
				continue
			}
			m[strings.ReplaceAll(row, ref, genuineRef)] = true
		}
		return m
	}
	genuine := norm(validRows, genuineRef)
	pick := map[string]bool{"unhashed-issuer-appended:other-key": true, "unhashed-issuer-prepended:other-key": true, "unhashed-issuer-only:other-key": true,
		"unhashed-issuer+fingerprint:other-key": true, "unhashed-issuer-fingerprint:other-key": true, "unhashed-issuer-critical:other-key": true,
		"unhashed-issuer-appended+header-old-2-octet-length:other-key": true, "unhashed-issuer-appended:unknown-key": true,
		"unhashed-issuer-appended:other-key-2": true, "unhashed-issuer-only:other-key-2": true, "header-old-2-octet-length": true, "unhashed-notation": true}
	for n, v := range vs {
		if !pick[v.name] {
			continue
		}
		text := T + sep + encodeSig(v.packet) + tail
		if _, isValid := c.valid.Load(text); isValid {
			continue
		}
		if !c.allowed(text) {
			r.Inconclusive(fmt.Sprintf("%s: the harness's own rule does not admit crafted variant %q it built", id, v.name))
			continue
		}
		mid := fmt.Sprintf("%s/crafted/%d", id, n)
		wit := map[string]any{"case_id": mid, "variant": v.name, "genuine": signed, "mutant_text": text, "mutant_bytes": []byte(text)}
		r.Note("consumer_crafted_variants", v.name)
		r.Distinct("cons:" + text)

		// the signing helper's verify endpoint
		r.Eval(1)
		code, body := sigPost(h, "camli/sig/verify", "sjson", text)
		var vres struct {
			SignatureValid bool           `json:"signatureValid"`
			SignerKeyId    string         `json:"signerKeyId"`
			VerifiedData   map[string]any `json:"verifiedData"`
		}
		if code == 200 && json.Unmarshal([]byte(body), &vres) == nil && vres.SignatureValid {
			r.Count("consumer_crafted_sigverify_valid", 1)
			if vres.SignerKeyId != k.s.KeyID {
				r.Violation("consumer/sigverify-wrong-signer", fmt.Sprintf("%s: camli/sig/verify reports signerKeyId %q for a claim that names and was signed by %s (%s); only the unsigned part of its signature packet was rewritten (%s)",
					mid, vres.SignerKeyId, k.name, k.s.KeyID, v.name), wit)
			} else if !reflect.DeepEqual(vres.VerifiedData, want) {
				r.Violation("consumer/sigverify-wrong-data", fmt.Sprintf("%s: camli/sig/verify reports data %v for a claim with fields %v", mid, vres.VerifiedData, want), wit)
			}
		} else {
			r.Count("consumer_crafted_sigverify_refused", 1)
		}

		// the indexer
		r.Eval(1)
		rows, err := indexRowsAdded(c.keys, pre, text)
		if err != nil {
			r.Inconclusive("consumers: index: " + err.Error())
			continue
		}
		accepted := false
		for _, row := range rows {
			if rowPrefix(row) == "claim" {
				accepted = true
			}
		}
		if !accepted {
			r.Count("consumer_crafted_index_refused", 1)
			continue
		}
		r.Count("consumer_crafted_index_accepted", 1)
		bad := ""
		for _, row := range rows {
			for _, o := range append(others, &keyInfo{name: "nobody", s: &hw.Signer{KeyID: "DEADBEEF"}}) {
				if strings.Contains(row, o.s.KeyID) && !strings.Contains(b.J, o.s.KeyID) {
					bad = fmt.Sprintf("row %q mentions the key id of %s", truncateStr(strings.ReplaceAll(row, "\x00", " = "), 200), o.name)
				}
			}
			if strings.HasPrefix(row, "signerkeyid:"+k.ref) && !strings.HasSuffix(row, "\x00"+k.s.KeyID) {
				bad = fmt.Sprintf("row %q records another key id for the public key blob of %s (%s)", truncateStr(strings.ReplaceAll(row, "\x00", " = "), 200), k.name, k.s.KeyID)
			}
		}
		if bad != "" {
			r.Violation("consumer/index-wrong-signer", fmt.Sprintf("%s: the index accepted a %s claim that names and was signed by %s, with the unsigned part of its signature packet rewritten (%s), and attributes it to another key: %s", mid, b.name, k.name, v.name, bad), wit)
			continue
		}
		// evidence only: does the index write the same rows as for the genuine claim (modulo the blob's own ref)?
		got := norm(rows, blob.RefFromString(text).String())
		if reflect.DeepEqual(got, genuine) {
			r.Count("consumer_crafted_index_rows_equal_genuine", 1)
		} else {
			r.Count("consumer_crafted_index_rows_differ_from_genuine", 1)
		}
	}
}
