package main

// Concurrent signing family.
//
// The property's first sentence ("signing any valid unsigned schema object yields a document that
// ... verifies ... and exposes the original fields", "all signature times") is stated per signing
// call.  A server signs through ONE shared *schema.Signer (UI, importers, share handler, ...), and
// callers of jsonsign build their SignRequest values from one template, so the calls of several
// goroutines overlap.  Every caller must still be handed ITS OWN document: the payload of the
// returned document is exactly the caller's JSON (rule 1, unchanged), it verifies, and the signature
// packet carries the signature time this caller asked for.
//
// Rounds: W goroutines are parked on a spin barrier and released together, each signs a document
// that no other caller signs (distinct payload, distinct signature time) through a shared object.
// No timing enters the verdict: a verdict is a returned document that is not the caller's.

import (
	"context"
	"encoding/json"
	"fmt"
	"runtime"
	"strings"
	"sync"
	"sync/atomic"
	"time"

	"perkeep.org/pkg/blob"
	"perkeep.org/pkg/jsonsign"
	"perkeep.org/pkg/jsonsign/signhandler"
	"perkeep.org/pkg/schema"

	"verif.local/harness/hw"
)

// sigCreationTime returns the signature creation time (RFC 4880 5.2.3.4, subpacket type 2) found
// in the hashed subpacket area of a v4 signature packet, i.e. the time the signature itself states.
func sigCreationTime(sp sigParts) (int64, bool) {
	h := sp.hashed
	if len(h) < 6 {
		return 0, false
	}
	area := h[6:]
	for len(area) > 0 {
		var n, off int
		l0 := int(area[0])
		switch {
		case l0 < 192:
			n, off = l0, 1
		case l0 < 255:
			if len(area) < 2 {
				return 0, false
			}
			n, off = (l0-192)<<8+int(area[1])+192, 2
		default:
			if len(area) < 5 {
				return 0, false
			}
			n, off = int(area[1])<<24|int(area[2])<<16|int(area[3])<<8|int(area[4]), 5
		}
		if n < 1 || off+n > len(area) {
			return 0, false
		}
		typ, body := area[off]&0x7f, area[off+1:off+n]
		if typ == 2 {
			if len(body) != 4 {
				return 0, false
			}
			return int64(uint32(body[0])<<24 | uint32(body[1])<<16 | uint32(body[2])<<8 | uint32(body[3])), true
		}
		area = area[off+n:]
	}
	return 0, false
}

// checkSigTime applies "signed at the time the caller asked for" to one signature packet.
func (c *checker) checkSigTime(sigClass, id string, packet []byte, want time.Time, wit any) bool {
	c.r.Eval(1)
	sp, err := parseSigPacket(packet)
	if err != nil {
		return true // already judged by rule 1 (sign-output/signature-armor)
	}
	got, ok := sigCreationTime(sp)
	if !ok {
		c.r.Violation(sigClass, fmt.Sprintf("%s: the signature packet has no creation time in its hashed area (asked for %s)", id, want.UTC().Format(time.RFC3339)), wit)
		return false
	}
	if got != want.Unix() {
		c.r.Violation(sigClass, fmt.Sprintf("%s: asked to sign at %s (unix %d) but the signature states %s (unix %d)", id,
			want.UTC().Format(time.RFC3339), want.Unix(), time.Unix(got, 0).UTC().Format(time.RFC3339), got), wit)
		return false
	}
	return true
}

// spinBudget bounds the busy-wait of a caller at the start barrier (iterations, not time).
const spinBudget = 2000000

// ---- shared signing objects

type concAPI string

const (
	apiSignJSON   concAPI = "schema.Signer.SignJSON"
	apiSignAt     concAPI = "schema.Builder.SignAt"
	apiSign       concAPI = "schema.Builder.Sign"
	apiTemplate   concAPI = "jsonsign.SignRequest-from-template"
	apiTemplRing  concAPI = "jsonsign.SignRequest-from-template(SecretKeyringPath)"
	apiHWSigner   concAPI = "hw.Signer.SignJSON"
	apiHelperPost concAPI = "signhandler:POST camli/sig/sign"
	apiHelperSign concAPI = "signhandler.Handler.Sign(builder)"
	concGroupsAll         = 6
)

// concCase is what one caller signs in one round.
type concCase struct {
	id      string
	api     concAPI
	key     *keyInfo
	signer  *schema.Signer        // for the schema.* APIs
	tmpl    *jsonsign.SignRequest // template to COPY for the jsonsign APIs (never signed through directly)
	helper  *signhandler.Handler  // the server's signing helper (signhandler APIs)
	J       string                // unsigned JSON (raw APIs)
	bb      *schema.Builder       // builder (builder APIs); private to this caller
	fields  map[string]string     // fields this caller put into the builder
	tag     string                // value unique to this caller that its builder carries
	sigTime time.Time
	noTime  bool // Builder.Sign: signature time is "now", not judged

	signed string
	err    error
	t0, t1 time.Time // monotonic clock around the signing call: coverage evidence (did calls overlap?) only
}

func (cc *concCase) witness() map[string]any {
	w := map[string]any{"case_id": cc.id, "api": string(cc.api), "signing_key": cc.key.name, "signed": cc.signed}
	if cc.J != "" {
		w["unsigned"] = cc.J
	} else {
		w["builder_fields"] = cc.fields
	}
	if !cc.noTime {
		w["signature_time"] = cc.sigTime.UTC().Format(time.RFC3339)
	}
	return w
}

type concGroup struct {
	name string
	apis []concAPI // API of worker w is apis[w%len(apis)]
	key  func(w int) *keyInfo
}

type concEnv struct {
	signers map[int]*schema.Signer // by key index
	tmpl    map[int]*jsonsign.SignRequest
	tmplR   map[int]*jsonsign.SignRequest
	helpers map[int]*signhandler.Handler
}

func (c *checker) concSetup() (*concEnv, error) {
	e := &concEnv{signers: map[int]*schema.Signer{}, tmpl: map[int]*jsonsign.SignRequest{}, tmplR: map[int]*jsonsign.SignRequest{}, helpers: map[int]*signhandler.Handler{}}
	for _, k := range c.keys {
		// key1: private key handed over as an entity; key2: as the name of a secret ring file
		var src any = k.ring
		if k.idx == 0 {
			ent, err := jsonsign.EntityFromSecring(k.s.KeyID, k.ring)
			if err != nil {
				return nil, err
			}
			src = ent
		}
		s, err := schema.NewSigner(blob.MustParse(k.ref), strings.NewReader(k.armored), src)
		if err != nil {
			return nil, fmt.Errorf("schema.NewSigner(%s): %v", k.name, err)
		}
		e.signers[k.idx] = s
		e.tmpl[k.idx] = &jsonsign.SignRequest{
			Fetcher:       c.fetcher,
			ServerMode:    true,
			EntityFetcher: &jsonsign.CachingEntityFetcher{Fetcher: &jsonsign.FileEntityFetcher{File: k.ring}},
		}
		e.tmplR[k.idx] = &jsonsign.SignRequest{Fetcher: c.fetcher, ServerMode: true, SecretKeyringPath: k.ring}
		h, err := c.sigHandler(k)
		if err != nil {
			return nil, fmt.Errorf("signing helper for %s: %v", k.name, err)
		}
		sh, ok := h.(*signhandler.Handler)
		if !ok {
			return nil, fmt.Errorf("signing helper is a %T", h)
		}
		e.helpers[k.idx] = sh
	}
	return e, nil
}

// concurrentSigning runs the family.  rounds*workers signing calls are made.
func (c *checker) concurrentSigning() {
	r := c.r
	if c.only != "" && !strings.HasPrefix(c.only, "conc/") {
		return
	}
	workers := min(8, runtime.GOMAXPROCS(0))
	if workers < 2 {
		r.Inconclusive("the concurrent signing family needs at least 2 CPUs to overlap signing calls")
		return
	}
	rounds := r.Pick(1024, 8192)
	env, err := c.concSetup()
	if err != nil {
		r.Inconclusive("concurrent signing family: " + err.Error())
		return
	}
	k1 := func(int) *keyInfo { return c.keys[0] }
	k2 := func(int) *keyInfo { return c.keys[1] }
	both := func(w int) *keyInfo { return c.keys[w%2] }
	pairs := func(w int) *keyInfo { return c.keys[(w/2)%2] }
	both4 := func(w int) *keyInfo { return c.keys[(w/4)%2] }
	schemaAPIs := []concAPI{apiSignJSON, apiSignJSON, apiSignAt, apiSignJSON, apiSign, apiSignJSON, apiSignAt, apiSignJSON}
	onlyJSON := []concAPI{apiSignJSON}
	groups := []concGroup{
		{"one-schema-signer(entity)/SignJSON", onlyJSON, k1},
		{"one-schema-signer(ringfile)/mixed-entry-points", schemaAPIs, k2},
		{"one-schema-signer(entity)/mixed-entry-points", schemaAPIs, k1},
		{"one-schema-signer(ringfile)/SignJSON", onlyJSON, k2},
		{"two-schema-signers/mixed-entry-points", schemaAPIs, both},
		{"signrequest-template-copies", []concAPI{apiTemplate}, both},
		{"one-schema-signer(entity)/SignJSON", onlyJSON, k1},
		{"signrequest-template-copies(SecretKeyringPath)+hw-signer", []concAPI{apiTemplRing, apiHWSigner}, pairs},
		// the server's signing helper: its Signer() is the one *schema.Signer that UI, importers and
		// share handler use, next to its HTTP sign endpoint and its builder entry point
		{"signing-helper/Signer()+sign-endpoint+Sign(builder)", []concAPI{apiSignJSON, apiHelperPost, apiSignAt, apiHelperSign}, both4},
	}
	helperGroup := len(groups) - 1
	rng := r.Rand("concurrent-signing")
	g := &docGen{rng: rng}
	pn := hw.RawBlob("verif C16 concurrent family permanode").Ref
	years := []int{1990, 1995, 1999, 2000, 2001, 2004, 2009, 2012, 2016, 2019}

	var wrong, wrongTime int64
	sampled := false

	genRound := func(round int) []*concCase {
		grp := groups[round%len(groups)]
		cases := make([]*concCase, workers)
		sameLen := round%2 == 0 // half of the rounds: all callers' documents have the same length
		for w := range cases {
			k := grp.key(w)
			cc := &concCase{id: fmt.Sprintf("conc/%s/r%d/w%d", grp.name, round, w), api: grp.apis[w%len(grp.apis)], key: k,
				signer: env.signers[k.idx],
				// a time no other caller of this round (or of the neighbouring rounds) uses
				sigTime: hw.T(years[(round+w)%len(years)], w*1000003+round*7+rng.Intn(5))}
			if round%len(groups) == helperGroup {
				cc.helper = env.helpers[k.idx]
				cc.signer = cc.helper.Signer()
			}
			switch cc.api {
			case apiTemplate:
				cc.tmpl = env.tmpl[k.idx]
			case apiTemplRing:
				cc.tmpl = env.tmplR[k.idx]
			}
			tag := fmt.Sprintf("r%06d-w%02d", round, w)
			switch cc.api {
			case apiSignAt, apiSign, apiHelperSign:
				cc.fields = map[string]string{"camliType": "claim", "permaNode": pn.String(), "attribute": "tag", "value": tag}
				switch (round + w) % 4 {
				case 0:
					cc.bb = schema.NewSetAttributeClaim(pn, "tag", tag)
					cc.fields["claimType"] = "set-attribute"
				case 1:
					cc.bb = schema.NewAddAttributeClaim(pn, "tag", tag)
					cc.fields["claimType"] = "add-attribute"
				case 2:
					cc.bb = schema.NewDelAttributeClaim(pn, "tag", tag)
					cc.fields["claimType"] = "del-attribute"
				default:
					cc.bb = schema.NewPlannedPermanode(tag)
					cc.fields = map[string]string{"camliType": "permanode", "key": tag}
				}
				cc.fields["camliSigner"] = k.ref
				cc.tag = tag
				cc.noTime = cc.api != apiSignAt
			default:
				if sameLen {
					cc.J = fmt.Sprintf(`{"camliVersion": 1, "camliSigner": %q, "camliType": "claim", "who": %q}`, k.ref, tag)
				} else {
					i := round*workers + w
					sp := docSpec{style: i % styles, rawLook: i%3 == 0, leadWS: i%7 == 3, trailWS: i%4 == 1, wsBeforeEnd: i%5 == 2, signerRef: k.ref}
					j, _ := g.generate(sp)
					// make it this caller's alone
					t := strings.TrimRight(j, " \t\r\n")
					cc.J = t[:len(t)-1] + `,"verifCaller":"` + tag + `"}` + j[len(t):]
				}
				cc.noTime = cc.api == apiHelperPost // the endpoint takes no signature time
			}
			cases[w] = cc
		}
		return cases
	}

	// Barrier of one round.  The callers are persistent goroutines that sign round after round; at the
	// barrier the last one to arrive opens the gate the others are spinning on, so that all enter the
	// signing call within a few hundred nanoseconds.  The spin is bounded (iterations, not time): on an
	// overloaded machine a caller that is not released soon blocks on `late` instead of burning a core;
	// the round is then merely less tight, which the evidence shows.
	type barrier struct {
		arrived atomic.Int32
		gate    atomic.Bool
		late    chan struct{}
		tight   atomic.Int32 // callers released while spinning (or being the last to arrive)
	}
	const batch = 128
	tightRounds, tightCallers, overlapping := 0, 0, 0
	for lo := 0; lo < rounds; lo += batch {
		hi := min(lo+batch, rounds)
		all := make([][]*concCase, hi-lo)
		bars := make([]barrier, hi-lo)
		for i := range all {
			all[i] = genRound(lo + i)
			bars[i].late = make(chan struct{})
		}
		var wg sync.WaitGroup
		for w := 0; w < workers; w++ {
			wg.Add(1)
			go func(w int) {
				defer wg.Done()
				for i := range all {
					cc, b := all[i][w], &bars[i]
					wit := cc.witness()
					if int(b.arrived.Add(1)) == workers {
						b.gate.Store(true)
						close(b.late)
						b.tight.Add(1)
					} else {
						spun := true
						for spins := 0; !b.gate.Load(); spins++ {
							if spins > spinBudget {
								<-b.late
								spun = false
								break
							}
						}
						if spun {
							b.tight.Add(1)
						}
					}
					cc.t0 = time.Now()
					r.Guard("concurrent-sign", wit, func() { cc.sign(c.ctx) })
					cc.t1 = time.Now()
				}
			}(w)
		}
		wg.Wait()
		// judge the batch (in parallel; nothing is being signed meanwhile)
		jobs := make(chan [2]int)
		var jw sync.WaitGroup
		for p := 0; p < runtime.GOMAXPROCS(0); p++ {
			jw.Add(1)
			go func() {
				defer jw.Done()
				for j := range jobs {
					cc := all[j[0]][j[1]]
					if cc.signed == "" && cc.err == nil {
						continue // panicked; reported by Guard
					}
					c.judgeConc(cc, all[j[0]], &wrong, &wrongTime)
				}
			}()
		}
		for i := range all {
			for w := range all[i] {
				jobs <- [2]int{i, w}
			}
		}
		close(jobs)
		jw.Wait()
		for i := range all {
			grp := groups[(lo+i)%len(groups)]
			t := int(bars[i].tight.Load())
			tightCallers += t
			for _, a := range all[i] {
				for _, b := range all[i] {
					if a != b && a.t0.Before(b.t1) && b.t0.Before(a.t1) {
						overlapping++
						break
					}
				}
			}
			if t == workers {
				tightRounds++
			}
			r.Count("concurrent_sign_rounds", 1)
			r.Count("concurrent_sign_rounds/"+grp.name, 1)
			r.Note("concurrent_sign_groups", grp.name)
			if !sampled && grp.name == "one-schema-signer(entity)/mixed-entry-points" && all[i][2].signed != "" {
				sampled = true
				r.Sample(map[string]any{"kind": "concurrent signing round (one caller of " + fmt.Sprint(workers) + " shown)", "case_id": all[i][2].id, "api": string(all[i][2].api), "signed": all[i][2].signed})
			}
		}
	}
	r.Count("concurrent_sign_rounds_all_callers_released_together", tightRounds)
	r.Count("concurrent_sign_callers_released_while_spinning", tightCallers)
	r.Count("concurrent_sign_calls_overlapping_another_call", overlapping)
	if overlapping == 0 {
		r.Inconclusive("concurrent signing family: no two signing calls overlapped; nothing was learned about concurrent callers")
	}
	r.Extra("concurrent_sign_workers", workers)
	r.Extra("concurrent_sign_wrong_document", atomic.LoadInt64(&wrong))
	r.Extra("concurrent_sign_wrong_time", atomic.LoadInt64(&wrongTime))
	if c.only == "" {
		var names []string
		for _, g := range groups {
			names = append(names, g.name)
		}
		r.Require("concurrent_sign_groups", names...)
		r.Require("concurrent_sign_apis", string(apiSignJSON), string(apiSignAt), string(apiSign), string(apiTemplate), string(apiTemplRing), string(apiHWSigner), string(apiHelperPost), string(apiHelperSign))
	}
}

// sign makes this caller's one signing call.
func (cc *concCase) sign(ctx context.Context) {
	switch cc.api {
	case apiSignJSON:
		cc.signed, cc.err = cc.signer.SignJSON(ctx, cc.J, cc.sigTime)
	case apiSignAt:
		cc.signed, cc.err = cc.bb.SignAt(ctx, cc.signer, cc.sigTime)
	case apiSign:
		cc.signed, cc.err = cc.bb.Sign(ctx, cc.signer)
	case apiTemplate, apiTemplRing:
		sr := *cc.tmpl // a caller's private copy of the template
		sr.UnsignedJSON = cc.J
		sr.SignatureTime = cc.sigTime
		cc.signed, cc.err = sr.Sign(ctx)
	case apiHWSigner:
		cc.signed, cc.err = cc.key.s.SignJSON(cc.J, cc.sigTime)
	case apiHelperPost:
		code, body := sigPost(cc.helper, "camli/sig/sign", "json", cc.J)
		if code != 200 {
			cc.err = fmt.Errorf("HTTP %d: %s", code, truncateStr(body, 200))
		} else {
			cc.signed = body
		}
	case apiHelperSign:
		cc.signed, cc.err = cc.helper.Sign(ctx, cc.bb)
	}
}

// judgeConc decides whether the document handed back to one caller is that caller's document.
func (c *checker) judgeConc(cc *concCase, round []*concCase, wrong, wrongTime *int64) {
	r := c.r
	api := string(cc.api)
	r.Count("concurrent_sign_calls", 1)
	r.Count("concurrent_sign_calls/"+api, 1)
	r.Note("concurrent_sign_apis", api)
	wit := cc.witness()
	r.Eval(1)
	if cc.err != nil {
		r.Violation("concurrent-sign/error/"+api, fmt.Sprintf("%s: signing a valid object failed while other callers were signing: %v", cc.id, cc.err), wit)
		return
	}
	signed := cc.signed
	// whose document is it?  (diagnosis only; the verdict is "not this caller's")
	whose := func() string {
		i := strings.LastIndex(signed, sep)
		if i < 0 {
			return ""
		}
		P := signed[:i]
		for _, o := range round {
			if o == cc {
				continue
			}
			if o.J != "" && payloadOf(o.J) == P {
				return o.id
			}
			if o.tag != "" && strings.Contains(P, `"`+o.tag+`"`) {
				return o.id
			}
		}
		return ""
	}
	var packet []byte
	if cc.J != "" {
		if !strings.HasPrefix(signed, payloadOf(cc.J)+sep) {
			if o := whose(); o != "" {
				atomic.AddInt64(wrong, 1)
				wit["other_caller"] = o
				r.Violation("concurrent-sign/wrong-document/"+api, fmt.Sprintf("%s was handed the signed document of another concurrent caller (%s) instead of its own", cc.id, o), wit)
				return
			}
		}
		var ok bool
		_, packet, ok = c.checkSignOutput(cc.id, cc.key, true, cc.J, signed)
		if !ok {
			atomic.AddInt64(wrong, 1)
			return
		}
	} else {
		// builder entry points: the fields this caller put in must come back, signed
		got, err := decodeExact(signed)
		if err != nil {
			r.Violation("sign-output/invalid-json", fmt.Sprintf("%s: output is not a JSON object: %v", cc.id, err), wit)
			return
		}
		for k, v := range cc.fields {
			if gv, _ := got[k].(string); gv != v {
				atomic.AddInt64(wrong, 1)
				if o := whose(); o != "" {
					wit["other_caller"] = o
				}
				r.Violation("concurrent-sign/wrong-document/"+api, fmt.Sprintf("%s: field %q of the builder is %q but the signed document handed back says %v", cc.id, k, v, got[k]), wit)
				return
			}
		}
		if n, ok := got["camliVersion"].(json.Number); !ok || n.String() != "1" {
			r.Violation("sign-output/field-changed", fmt.Sprintf("%s: camliVersion is %v", cc.id, got["camliVersion"]), wit)
			return
		}
		i := strings.LastIndex(signed, sep)
		if i < 0 || !strings.HasSuffix(signed, tail) {
			r.Violation("sign-output/format", cc.id+": signed document is not payload + ',\"camliSig\":\"' + S + '\"}\\n'", wit)
			return
		}
		P, S := signed[:i], signed[i+len(sep):len(signed)-len(tail)]
		var okp bool
		packet, _, okp = splitSig(S)
		var sp sigParts
		if okp {
			sp, err = parseSigPacket(packet)
		}
		if !okp || err != nil {
			r.Violation("sign-output/signature-armor", cc.id+": camliSig is not base64(v4 signature packet) + '=' + base64(crc24)", wit)
			return
		}
		c.led.add(cc.key.s.KeyID, P, sp)
		c.valid.Store(signed, true)
		if acc, _ := c.submit(&mut{Doc: -1, Class: "valid", Region: "none", text: signed}, cc.id); !acc {
			return
		}
	}
	r.Distinct("valid:" + signed)
	if !cc.noTime {
		if !c.checkSigTime("concurrent-sign/wrong-signature-time/"+api, cc.id, packet, cc.sigTime, wit) {
			atomic.AddInt64(wrongTime, 1)
		}
	}
}
