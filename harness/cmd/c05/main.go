// C05 — the index is a function of the set of blobs, not of their arrival order.
package main

import (
	"context"
	"fmt"
	"io"
	"log"
	"math/rand"
	"os"
	"sort"
	"strings"
	"sync"

	"perkeep.org/pkg/blob"
	"perkeep.org/pkg/blobserver/memory"
	"perkeep.org/pkg/index"
	"perkeep.org/pkg/sorted"

	"verif.local/harness/ev"
	"verif.local/harness/hw"
	"verif.local/harness/inject"
	"verif.local/harness/sto"
)

// schedule describes one arrival schedule.
type schedule struct {
	Order      []int `json:"order"`                // indices into world.Blobs
	Prefill    bool  `json:"prefill,omitempty"`    // all blobs are in the blob source before indexing starts
	Dups       []int `json:"dups,omitempty"`       // positions after which the same blob is delivered again
	RestartAt  int   `json:"restart_at,omitempty"` // restart the index before this position (0 = never)
	Goroutines int   `json:"goroutines,omitempty"` // >1: the order is dealt round-robin to concurrent deliverers
	JitterSeed int64 `json:"jitter_seed,omitempty"`
	// Redeliver: pairs {p, q} with q >= p: the blob at position p is delivered once more right
	// after position q (a late duplicate: the blob may meanwhile be pending, re-indexed or indexed).
	Redeliver [][2]int `json:"redeliver,omitempty"`
	// Lanes: explicit concurrent deliverers, each a list of positions; a position may occur in
	// several lanes (the same blob uploaded by several clients at once).  With RestartAt > 0 the
	// lanes first deliver their positions < RestartAt, then the index is re-opened, then the rest.
	Lanes [][]int `json:"lanes,omitempty"`
	// LiveReindex: after quiescence Reindex() is called on this (non-fresh) index and the rows are
	// compared once more.
	LiveReindex bool `json:"live_reindex,omitempty"`
	// LateDangling (worlds with a dangling dependency): after everything else (incl. LiveReindex)
	// the missing blob is delivered after all; the index must converge to the state of the complete set.
	LateDangling bool `json:"late_dangling,omitempty"`
	// Fault (kv-fault family, see fault.go): one call of the row store under the index fails without
	// effect; an upload that fails is sent again, an acknowledged one is not.
	Fault *faultSpec `json:"kv_fault,omitempty"`
	// LateRestart: the index is re-opened over the same rows before the LateDangling delivery.
	LateRestart bool `json:"late_restart,omitempty"`
}

type delaySrc struct {
	*memory.Storage
	yield func(inject.Call)
}

func (d *delaySrc) Fetch(ctx context.Context, br blob.Ref) (io.ReadCloser, uint32, error) {
	if d.yield != nil {
		d.yield(inject.Call{})
	}
	return d.Storage.Fetch(ctx, br)
}

type result struct {
	dump                   []string
	needs, neededBy, ready int
	err                    error
	// after LiveReindex
	reDump                       []string
	reNeeds, reNeededBy, reReady int
	reErr                        error
	badBeforeKey                 bool // a blob with an invalid signature was delivered before its key
	// after LateDangling
	lateDump                           []string
	lateNeeds, lateNeededBy, lateReady int
	lateErr                            error
	lateDone                           bool
	// kv-fault family
	fault        *faultHit      // the call that was failed (nil: the history never made it)
	faultRetried int            // uploads that failed and were sent again
	kvCalls      map[string]int // row-store calls by op-class@site
}

// tolerable reports whether a delivery error of b is within what the property allows: a blob
// with an invalid signature may be refused (it is, once its key is known).
func tolerable(w *hw.World, b sto.Blob) bool { return w.Bad[b.Ref] }

// reindexErrOK: Reindex reports blobs that are still waiting for a dependency, and blobs that
// cannot be indexed (invalid signature), as an error; the rows are what is compared.
func reindexErrOK(w *hw.World, err error) bool {
	if err == nil {
		return true
	}
	msg := err.Error()
	if strings.Contains(msg, "still needed") {
		return true
	}
	if len(w.Bad) > 0 && (strings.Contains(msg, "failed to re-index") || strings.Contains(msg, "ready to reindex")) {
		return true
	}
	return false
}

// execute runs one schedule on a fresh index over a fresh memory KV.
func execute(w *hw.World, sc schedule, kvKind string, dir string) (res result) {
	kv, closeKV, err := newKV(kvKind, dir)
	if err != nil {
		res.err = err
		return
	}
	defer closeKV()
	idxKV := kv // what the index is opened over
	var fkv *faultKV
	if sc.Fault != nil {
		fkv = newFaultKV(kv, *sc.Fault)
		idxKV = fkv
		defer func() {
			res.fault, res.kvCalls = fkv.fired(), fkv.counts()
		}()
	}
	ms := &memory.Storage{}
	var src hw.SrcStore = ms
	if sc.JitterSeed != 0 {
		src = &delaySrc{Storage: ms, yield: inject.Jitter(sc.JitterSeed)}
	}
	if sc.Prefill {
		if err := sto.StoreAll(ms, w.Blobs); err != nil {
			res.err = err
			return
		}
	}
	x, err := hw.NewIdx(idxKV, src, false)
	if err != nil {
		res.err = err
		return
	}
	if fkv != nil {
		fkv.arm(true)
	}
	// reopen re-opens the index over the same rows (the row store does not fail while it is opened)
	reopen := func() (*hw.Idx, error) {
		if fkv != nil {
			fkv.arm(false)
			defer fkv.arm(true)
		}
		return hw.NewIdx(idxKV, src, false)
	}
	// upload delivers b; with a failing row store an upload that failed is sent again
	upload := func(cur *hw.Idx, b sto.Blob, pos int) error {
		if fkv == nil {
			return cur.Deliver(b)
		}
		fkv.setPos(pos)
		before := fkv.fired()
		err := cur.Deliver(b)
		if err != nil && before == nil && fkv.fired() != nil {
			// the row store failed during this upload and the upload failed: send it again
			res.faultRetried++
			err = cur.Deliver(b)
		}
		return err
	}
	dup := map[int]bool{}
	for _, d := range sc.Dups {
		dup[d] = true
	}
	var xmu sync.RWMutex // guards x against the restart in lanes mode
	deliver1 := func(pos int, what string) error {
		b := w.Blobs[sc.Order[pos]]
		xmu.RLock()
		cur := x
		xmu.RUnlock()
		if err := upload(cur, b, pos); err != nil && !tolerable(w, b) {
			return fmt.Errorf("%s #%d %v (%s): %w", what, pos, b.Ref, w.Kind[b.Ref], err)
		}
		return nil
	}
	redeliver := map[int][]int{}
	for _, pq := range sc.Redeliver {
		redeliver[pq[1]] = append(redeliver[pq[1]], pq[0])
	}
	deliver := func(pos int) error {
		if err := deliver1(pos, "deliver"); err != nil {
			return err
		}
		if dup[pos] {
			if err := deliver1(pos, "duplicate deliver"); err != nil {
				return err
			}
		}
		for _, p := range redeliver[pos] {
			if err := deliver1(p, fmt.Sprintf("late duplicate (after #%d) deliver", pos)); err != nil {
				return err
			}
		}
		return nil
	}
	if len(w.Bad) > 0 {
		seenKey := map[blob.Ref]bool{}
		for _, i := range sc.Order {
			b := w.Blobs[i]
			if w.Kind[b.Ref] == "key" {
				seenKey[b.Ref] = true
			}
			if w.Bad[b.Ref] {
				for _, d := range w.Deps[b.Ref] {
					if w.Kind[d] == "key" && !seenKey[d] {
						res.badBeforeKey = true
					}
				}
			}
		}
	}
	runLanes := func(lanes [][]int) error {
		var wg sync.WaitGroup
		errs := make([]error, len(lanes))
		for g := range lanes {
			wg.Add(1)
			go func(g int) {
				defer wg.Done()
				for _, pos := range lanes[g] {
					if err := deliver(pos); err != nil {
						errs[g] = err
						return
					}
				}
			}(g)
		}
		wg.Wait()
		for _, e := range errs {
			if e != nil {
				return e
			}
		}
		return nil
	}
	if len(sc.Lanes) > 0 {
		phases := [][][]int{sc.Lanes}
		if sc.RestartAt > 0 {
			var before, after [][]int
			for _, l := range sc.Lanes {
				var b, a []int
				for _, pos := range l {
					if pos < sc.RestartAt {
						b = append(b, pos)
					} else {
						a = append(a, pos)
					}
				}
				before, after = append(before, b), append(after, a)
			}
			phases = [][][]int{before, after}
		}
		for pi, ph := range phases {
			if pi > 0 {
				x.Quiesce()
				x2, err := reopen()
				if err != nil {
					res.err = fmt.Errorf("restart: %w", err)
					return
				}
				xmu.Lock()
				x = x2
				xmu.Unlock()
			}
			if err := runLanes(ph); err != nil {
				res.err = err
				return
			}
		}
	} else if sc.Goroutines > 1 {
		var wg sync.WaitGroup
		errs := make([]error, sc.Goroutines)
		for g := 0; g < sc.Goroutines; g++ {
			wg.Add(1)
			go func(g int) {
				defer wg.Done()
				for pos := g; pos < len(sc.Order); pos += sc.Goroutines {
					if err := deliver(pos); err != nil {
						errs[g] = err
						return
					}
				}
			}(g)
		}
		wg.Wait()
		for _, e := range errs {
			if e != nil {
				res.err = e
				return
			}
		}
	} else {
		for pos := range sc.Order {
			if sc.RestartAt > 0 && pos == sc.RestartAt {
				x.Quiesce()
				x2, err := reopen()
				if err != nil {
					res.err = fmt.Errorf("restart: %w", err)
					return
				}
				x = x2
			}
			if err := deliver(pos); err != nil {
				res.err = err
				return
			}
		}
	}
	x.Quiesce()
	res.needs, res.neededBy, res.ready = x.Index.VerifPending()
	res.dump, res.err = hw.Dump(kv)
	if res.err == nil && sc.LiveReindex {
		res.reErr = x.Index.Reindex()
		x.Quiesce()
		res.reNeeds, res.reNeededBy, res.reReady = x.Index.VerifPending()
		var err error
		if res.reDump, err = hw.Dump(kv); err != nil && res.reErr == nil {
			res.reErr = err
		}
	}
	if res.err == nil && sc.LateDangling && w.Dangling != nil {
		res.lateDone = true
		if sc.LateRestart {
			x2, err := reopen()
			if err != nil {
				res.lateErr = fmt.Errorf("re-opening the index before the late delivery: %w", err)
				return
			}
			x = x2
		}
		if err := upload(x, *w.Dangling, len(sc.Order)); err != nil {
			res.lateErr = fmt.Errorf("late delivery of the missing %s %v: %w", w.DanglingKind, w.Dangling.Ref, err)
			return
		}
		x.Quiesce()
		res.lateNeeds, res.lateNeededBy, res.lateReady = x.Index.VerifPending()
		res.lateDump, res.lateErr = hw.Dump(kv)
	}
	return
}

func newKV(kind, dir string) (sorted.KeyValue, func(), error) {
	switch kind {
	case "", "memory":
		return sorted.NewMemoryKeyValue(), func() {}, nil
	}
	d, err := os.MkdirTemp(dir, "kv")
	if err != nil {
		return nil, nil, err
	}
	env := &sto.Env{Dir: d}
	conf, _, err := env.KVConf(kind, "c05")
	if err != nil {
		return nil, nil, err
	}
	kv, err := sorted.NewKeyValue(conf)
	if err != nil {
		return nil, nil, err
	}
	return kv, func() { kv.Close(); os.RemoveAll(d) }, nil
}

// reindexDump builds the index by a full Reindex() from a blob source holding the whole set.
func reindexDump(w *hw.World) ([]string, error) {
	ms := &memory.Storage{}
	if err := sto.StoreAll(ms, w.Blobs); err != nil {
		return nil, err
	}
	kv := sorted.NewMemoryKeyValue()
	ix, err := index.New(kv)
	if err != nil {
		return nil, err
	}
	ix.KeyFetcher = ms
	ix.InitBlobSource(ms)
	if err := ix.Reindex(); !reindexErrOK(w, err) {
		// Reindex reports still-needed dependencies (and un-indexable blobs) as an error; the rows are what we compare
		return nil, err
	}
	return hw.Dump(kv)
}

func rowKind(row string) string {
	k := row
	if i := strings.IndexByte(k, 0); i >= 0 {
		k = k[:i]
	}
	if i := strings.IndexAny(k, "|:"); i >= 0 {
		k = k[:i]
	}
	return k
}

func diff(a, b []string) (onlyA, onlyB []string) {
	m := map[string]int{}
	for _, r := range a {
		m[r]++
	}
	for _, r := range b {
		if m[r] > 0 {
			m[r]--
		} else {
			onlyB = append(onlyB, r)
		}
	}
	for _, r := range a {
		if m[r] > 0 {
			m[r]--
			onlyA = append(onlyA, r)
		}
	}
	return
}

func show(rows []string) string {
	var sb strings.Builder
	for i, r := range rows {
		if i == 6 {
			fmt.Fprintf(&sb, " …(+%d)", len(rows)-6)
			break
		}
		fmt.Fprintf(&sb, " %q", strings.ReplaceAll(r, "\x00", " = "))
	}
	return sb.String()
}

type caseRec struct {
	CaseID   string         `json:"case_id"`
	World    map[string]any `json:"world"`
	Blobs    []string       `json:"blobs"`
	Schedule schedule       `json:"schedule"`
	KV       string         `json:"kv"`
	Race     *raceSpec      `json:"race,omitempty"`
}

func blobList(w *hw.World) []string {
	var out []string
	for i, b := range w.Blobs {
		out = append(out, fmt.Sprintf("%d:%s:%s", i, w.Kind[b.Ref], b.Ref))
	}
	return out
}

func permutations(n int, fn func([]int)) {
	p := make([]int, n)
	for i := range p {
		p[i] = i
	}
	var rec func(k int)
	rec = func(k int) {
		if k == n {
			fn(append([]int(nil), p...))
			return
		}
		for i := k; i < n; i++ {
			p[k], p[i] = p[i], p[k]
			rec(k + 1)
			p[k], p[i] = p[i], p[k]
		}
	}
	rec(0)
}

func main() {
	ev.Main("C05", "exploration",
		"generated blob sets (keys, permanodes, set/add/del/path/member/share claims, delete chains incl. deletes of shares, files with nested bytes, directories with plain and split (mergeSets) static sets, opaque blobs, signed blobs with an INVALID signature (never indexable; they wait for their key like any signed blob); optionally one dangling dependency: key, chunk, bytes, static set, delete target incl. a permanode) delivered under arrival schedules: all permutations for sets of <=6 blobs, seeded permutations for larger sets, prefilled/non-prefilled source, adjacent and late duplicates, mid-history restarts, 2-8 concurrent deliverers (round-robin, and random lanes where ~10% of the blobs are uploaded by 2-3 lanes at once, optionally with a restart barrier) with jitter in the blob source, and same-blob races (2-6 concurrent uploads of one dependant while its dependency arrives, the not-found answers of the dependency lookup at the blob source / meta row steered by a seeded hold policy); the sorted row dump must equal the dependency-order run, a full Reindex on a fresh index, and (sampled) a Reindex() on the live index after the schedule; one transient failure of a row-store call made by the index on behalf of an upload (the n-th Set of a missing| edge - every failing note of a pending edge of an out-of-order arrival is enumerated -, CommitBatch, Get of a have: row or Find of missing| edges) with an uploader that re-sends only uploads that failed; complete sets leave no pending needs, nothing indexable stays queued, and a dangling set converges to the complete set's rows when the missing blob is delivered after any schedule; distinct = (world, schedule); non-trivial = schedule differs from dependency order",
		run)
}

type job struct {
	w        *hw.World
	wid      string
	sc       schedule
	kv       string
	want     []string // reference dump (nil: pending-world expectations instead)
	wantFull []string // dangling worlds: reference dump of the complete set (incl. the dangling blob)
	race     *raceSpec
}

func run(r *ev.Run) {
	log.SetOutput(io.Discard)
	r.Assume("the reference state is the row dump of an in-dependency-order delivery on a fresh memory KV")
	r.Assume("row dumps are taken after the out-of-order reindexing goroutines quiesce (hook VerifWaitOutOfOrder)")
	r.Assume("a signed blob whose signature is invalid can never be indexed: its delivery may be refused, it has no rows (beyond a missing| edge while its key is absent) and it may stay in the ready-to-reindex queue; no other blob may stay there")
	r.Assume("kv-fault family: exactly one call of the row store under the index fails, without effect; the uploader sends again an upload that failed and never one that was acknowledged; pending edges (missing| rows) that outlive their purpose after a failed deletion are counted, not judged: what is judged is that every acknowledged blob ends up indexed as in the reference, that waiting blobs stay recorded as waiting, and that the history can continue (late arrival of the missing blob, on the same index or after re-opening it)")
	r.Assume("kv-fault family: the property quantifies over arrival orders, interleavings, duplicates and restarts, not over storage faults; a failure is injected only where it makes the upload fail (which the uploader re-sends: a duplicate arrival after a partial effect) or is harmless: a Set of a missing| edge, a CommitBatch, a Get of a have: row, a Find of missing| edges, all made on behalf of an upload")
	r.Assume("kv-fault family: never failed (perkeep logs and continues there, with nobody left to retry; outside the property): the Get of a delete claim's target meta row in populateDeleteClaim, any Delete of a missing| edge, and every row-store call made by the asynchronous re-indexer (indexReadyBlobs); the list is in the evidence under kv_fault_never_injected_at")
	r.Assume("hold timers of the same-blob races only shape the interleaving; every verdict is taken from the rows and pending maps after quiescence")
	root := ev.Scratch("c05")
	defer os.RemoveAll(root)
	var mu sync.Mutex
	jobs := make(chan job, 64)
	var wg sync.WaitGroup
	sampled := 0
	sampledMode := map[string]int{}
	for i := 0; i < 14; i++ {
		wg.Add(1)
		go func() {
			defer wg.Done()
			for j := range jobs {
				var res result
				if j.race != nil {
					res = executeRace(r, j.w, j.race)
				} else {
					res = execute(j.w, j.sc, j.kv, root)
				}
				r.Eval(1)
				rec := caseRec{CaseID: j.wid, World: j.w.Describe(), Blobs: blobList(j.w), Schedule: j.sc, KV: j.kv, Race: j.race}
				if j.sc.Fault != nil {
					judgeFault(r, j, res, rec)
					continue
				}
				mode := "sequential"
				switch {
				case j.race != nil:
					mode = "same-blob-race"
				case len(j.sc.Lanes) > 0:
					mode = "lanes"
				case j.sc.Goroutines > 1:
					mode = "concurrent"
				case j.sc.RestartAt > 0:
					mode = "restart"
				case len(j.sc.Redeliver) > 0:
					mode = "late-duplicates"
				case len(j.sc.Dups) > 0:
					mode = "duplicates"
				}
				r.Note("schedule_modes", mode)
				if j.sc.Prefill {
					r.Note("schedule_modes", "prefilled-source")
				}
				if mode == "lanes" && j.sc.RestartAt > 0 {
					r.Note("schedule_modes", "lanes-with-restart")
				}
				if res.badBeforeKey {
					r.Note("schedule_modes", "bad-signature-before-key")
				}
				if j.race != nil {
					r.Distinct(fmt.Sprintf("%s/race/%v", j.wid, *j.race))
				} else {
					r.Distinct(fmt.Sprintf("%s/%v", j.wid, j.sc))
				}
				if res.err != nil {
					r.Violation("delivery-error/"+mode, fmt.Sprintf("world %s: %v", j.wid, res.err), rec)
					continue
				}
				// blobs that can never be indexed (invalid signature) may stay queued; nothing else may
				if res.ready > len(j.w.Bad) {
					r.Violation("ready-not-run/"+mode, fmt.Sprintf("world %s: %d blobs ready to reindex but never run after quiescence (only %d blobs of the set are un-indexable)", j.wid, res.ready, len(j.w.Bad)), rec)
				}
				onlyWant, onlyGot := diff(j.want, res.dump)
				if len(onlyWant)+len(onlyGot) > 0 {
					kind := "?"
					if len(onlyWant) > 0 {
						kind = rowKind(onlyWant[0])
					} else {
						kind = rowKind(onlyGot[0])
					}
					r.Violation(fmt.Sprintf("order-dependence/%s/%s", mode, kind),
						fmt.Sprintf("world %s: rows only in the dependency-order index:%s; rows only under this schedule:%s", j.wid, show(onlyWant), show(onlyGot)), rec)
				} else if j.w.Dangling == nil && (res.needs != 0 || res.neededBy != 0) {
					r.Violation("stale-pending/"+mode, fmt.Sprintf("world %s: complete set indexed but needs=%d neededBy=%d", j.wid, res.needs, res.neededBy), rec)
				}
				if j.sc.LiveReindex {
					r.Eval(1)
					r.Note("schedule_modes", "live-reindex")
					r.Note("live_reindex_kv", j.kv)
					if !reindexErrOK(j.w, res.reErr) {
						r.Violation("live-reindex-error", fmt.Sprintf("world %s: Reindex() on the live index after this schedule: %v", j.wid, res.reErr), rec)
					} else if a, b := diff(j.want, res.reDump); len(a)+len(b) > 0 {
						kind := "?"
						if len(a) > 0 {
							kind = rowKind(a[0])
						} else {
							kind = rowKind(b[0])
						}
						r.Violation("live-reindex-differs/"+kind, fmt.Sprintf("world %s (%v): Reindex() on the live index after this schedule: rows only in the dependency-order index:%s; rows only after Reindex():%s", j.wid, j.w.FeatureList(), show(a), show(b)), rec)
					} else if j.w.Dangling == nil && (res.reNeeds != 0 || res.reNeededBy != 0) {
						r.Violation("stale-pending/live-reindex", fmt.Sprintf("world %s: complete set re-indexed but needs=%d neededBy=%d", j.wid, res.reNeeds, res.reNeededBy), rec)
					} else if res.reReady > len(j.w.Bad) {
						r.Violation("ready-not-run/live-reindex", fmt.Sprintf("world %s: %d blobs ready to reindex but never run after Reindex()", j.wid, res.reReady), rec)
					}
				}
				if res.lateDone {
					r.Eval(1)
					r.Note("schedule_modes", "dangling-delivered-after-"+mode)
					if res.lateErr != nil {
						r.Violation("delivery-error/dangling", fmt.Sprintf("world %s: %v", j.wid, res.lateErr), rec)
					} else if a, b := diff(j.wantFull, res.lateDump); len(a)+len(b) > 0 {
						kind := "?"
						if len(a) > 0 {
							kind = rowKind(a[0])
						} else {
							kind = rowKind(b[0])
						}
						r.Violation("order-dependence/dangling-late/"+kind, fmt.Sprintf("world %s: the missing %s delivered after this schedule: rows only in the dependency-order index of the complete set:%s; rows only here:%s", j.wid, j.w.DanglingKind, show(a), show(b)), rec)
					} else if res.lateNeeds != 0 || res.lateNeededBy != 0 || res.lateReady > len(j.w.Bad) {
						r.Violation("stale-pending/dangling-late", fmt.Sprintf("world %s: needs=%d neededBy=%d ready=%d after the missing blob arrived", j.wid, res.lateNeeds, res.lateNeededBy, res.lateReady), rec)
					}
				}
				mu.Lock()
				if mode != "sequential" && sampledMode[mode] < 1 && sampled < 5 {
					sampledMode[mode]++
					sampled++
					r.Sample(rec)
				}
				mu.Unlock()
			}
		}()
	}

	wantFullOf := map[*hw.World][]string{}
	submit := func(j job) {
		if j.sc.LateDangling {
			if j.wantFull = wantFullOf[j.w]; j.wantFull == nil {
				j.sc.LateDangling = false
			}
		}
		jobs <- j
	}
	identity := func(n int) []int {
		p := make([]int, n)
		for i := range p {
			p[i] = i
		}
		return p
	}

	// reference: dependency order on memory KV
	prepare := func(w *hw.World, wid string) ([]string, bool) {
		dep := w.DepOrder()
		w.Blobs = dep // canonical numbering = dependency order
		ref := execute(w, schedule{Order: identity(len(dep))}, "memory", root)
		rec := caseRec{CaseID: wid, World: w.Describe(), Blobs: blobList(w), Schedule: schedule{Order: identity(len(dep))}}
		if ref.err != nil {
			r.Violation("delivery-error/dependency-order", fmt.Sprintf("world %s: %v", wid, ref.err), rec)
			return nil, false
		}
		for f := range w.Features {
			r.Note("world_features", f)
		}
		// full reindex must agree
		rd, err := reindexDump(w)
		r.Eval(1)
		if err != nil {
			r.Violation("reindex-error", fmt.Sprintf("world %s: Reindex: %v", wid, err), rec)
		} else if a, b := diff(ref.dump, rd); len(a)+len(b) > 0 {
			kind := "?"
			if len(a) > 0 {
				kind = rowKind(a[0])
			} else {
				kind = rowKind(b[0])
			}
			r.Violation("reindex-differs/"+kind, fmt.Sprintf("world %s (%v): rows only in the incremental index:%s; rows only after Reindex():%s", wid, w.FeatureList(), show(a), show(b)), rec)
		}
		r.Note("schedule_modes", "full-reindex")
		if w.Dangling != nil {
			wantFullOf[w] = checkDangling(r, w, wid, ref, rec)
		}
		return ref.dump, true
	}

	// kv-fault family: the schedule order with one failing row-store call per case (fault.go)
	frng := r.Rand("kv-fault")
	nFault := 0
	submitFaults := func(w *hw.World, wid string, order []int, want []string) {
		for _, spec := range faultSpecsFor(frng, w, order) {
			spec := spec
			nFault++
			sc := schedule{Order: order, Fault: &spec, LateDangling: true, LateRestart: nFault%2 == 0}
			submit(job{w: w, wid: wid, sc: sc, kv: "memory", want: want})
		}
	}

	// 1. small sets, exhaustive permutations
	srng := r.Rand("small-worlds")
	nSmall := r.Pick(14, 40)
	smallFaultEvery := r.Pick(12, 4) // every that many permutations of a small set also run with row-store faults
	for i := 0; i < nSmall; i++ {
		wo := hw.WorldOpts{Small: true, Label: fmt.Sprintf("s%d", i), Dangling: i%5 == 4}
		if i%7 == 5 {
			wo.BadSig = 1 // an un-indexable claim (invalid signature) among ordinary out-of-order pairs
		}
		w := hw.GenWorld(srng, wo)
		wid := fmt.Sprintf("small%d;", i)
		if len(w.Blobs) > 6 {
			r.Count("small_worlds_skipped_too_big", 1)
			continue
		}
		if !r.Only(wid) {
			continue
		}
		want, ok := prepare(w, wid)
		if !ok {
			continue
		}
		n := len(w.Blobs)
		cnt := 0
		permutations(n, func(p []int) {
			cnt++
			submit(job{w: w, wid: wid, sc: schedule{Order: p, LateDangling: cnt%3 == 0}, kv: "memory", want: want})
			if cnt%7 == 0 {
				submit(job{w: w, wid: wid, sc: schedule{Order: p, Prefill: true}, kv: "memory", want: want})
			}
			if cnt%11 == 0 {
				submit(job{w: w, wid: wid, sc: schedule{Order: p, RestartAt: 1 + cnt%(n-1)}, kv: "memory", want: want})
			}
			if cnt%13 == 0 {
				// a late duplicate: blob at position a again after position b >= a
				a := cnt % n
				b := a + (cnt/n)%(n-a)
				submit(job{w: w, wid: wid, sc: schedule{Order: p, Redeliver: [][2]int{{a, b}}}, kv: "memory", want: want})
			}
			if cnt%37 == 0 {
				submit(job{w: w, wid: wid, sc: schedule{Order: p, LiveReindex: true}, kv: "memory", want: want})
			}
			if cnt%smallFaultEvery == 3 {
				submitFaults(w, wid, p, want)
			}
		})
		r.Count("exhaustive_permutation_sets", 1)
		r.Count("exhaustive_permutations", cnt)
	}

	// 2. larger sets, seeded schedules
	lrng := r.Rand("large-worlds")
	nLarge := r.Pick(36, 120)
	nOrders := r.Pick(30, 120)
	nFaultOrders := r.Pick(5, 20)
	kvKinds := []string{"memory"}
	if r.Thorough() {
		kvKinds = []string{"memory", "leveldb", "kv", "sqlite"}
	}
	xsrc := r.Rand("extra-schedules")
	brng := r.Rand("badsig-worlds")
	nBad := r.Pick(12, 36)
	for i := 0; i < nLarge+nBad; i++ {
		wo := hw.WorldOpts{TwoSigners: i%3 == 1, Label: fmt.Sprintf("l%d", i), Dangling: i%4 == 3}
		if i >= nLarge {
			// extended worlds: un-indexable blobs (invalid signature) among files, directories and
			// delete chains; directories with a split static set; share claims (and deletes of them);
			// a permanode that is a delete target as the dangling blob
			lrng = brng
			wo.Dangling = i%5 == 4 || i%5 == 1
			wo.DanglingPermanode = i%5 == 1
			wo.BadSig = []int{1, 2, 0, 3}[i%4]
			wo.SplitDir = i%2 == 0
			wo.Shares = i % 3
			wo.Files, wo.Deletes = 2, 3
		}
		switch i % 6 {
		case 0:
			wo.FileShape, wo.ForceDir = "nested-bytes", true
		case 2:
			wo.DeleteKinds = []string{"permanode", "claim", "delete"}
			wo.MaxClaims = 4
			wo.Permanodes = 2
		case 4:
			wo.FileShape = "two-chunks"
		}
		w := hw.GenWorld(lrng, wo)
		wid := fmt.Sprintf("large%d;", i)
		if !r.Only(wid) {
			continue
		}
		want, ok := prepare(w, wid)
		if !ok {
			continue
		}
		n := len(w.Blobs)
		orng := rand.New(rand.NewSource(lrng.Int63()))
		for o := 0; o < nOrders; o++ {
			sc := schedule{Order: orng.Perm(n)}
			switch o % 5 {
			case 1:
				sc.Prefill = true
			case 2:
				for d := 0; d < 1+orng.Intn(3); d++ {
					sc.Dups = append(sc.Dups, orng.Intn(n))
				}
				sort.Ints(sc.Dups)
			case 3:
				if n > 2 {
					sc.RestartAt = 1 + orng.Intn(n-1)
				}
			case 4:
				sc.Goroutines = 2 + orng.Intn(7)
				sc.JitterSeed = 1 + orng.Int63n(1<<40)
			}
			kv := kvKinds[o%len(kvKinds)]
			if sc.Goroutines > 1 && kv == "sqlite" {
				kv = "memory"
			}
			sc.LateDangling = o%2 == 0
			submit(job{w: w, wid: wid, sc: sc, kv: kv, want: want})
			r.Note("kv_kinds", kv)
		}
		// additional schedule families (own PRNG, so that the schedules above stay what they were)
		xrng := rand.New(rand.NewSource(xsrc.Int63()))
		nExtra := nOrders / 3
		for o := 0; o < nExtra; o++ {
			sc := schedule{Order: xrng.Perm(n)}
			kv := kvKinds[o%len(kvKinds)]
			switch o % 3 {
			case 0: // late duplicates, possibly with an ordinary restart in between
				for d := 0; d < 1+xrng.Intn(3); d++ {
					a := xrng.Intn(n)
					sc.Redeliver = append(sc.Redeliver, [2]int{a, a + xrng.Intn(n-a)})
				}
				if n > 2 && xrng.Intn(3) == 0 {
					sc.RestartAt = 1 + xrng.Intn(n-1)
				}
			case 1, 2: // random lanes; ~10% of the positions are uploaded by two or three lanes
				sc.Lanes = randomLanes(xrng, n, 2+xrng.Intn(6))
				sc.JitterSeed = 1 + xrng.Int63n(1<<40)
				if xrng.Intn(3) == 0 {
					sc.Dups = append(sc.Dups, xrng.Intn(n))
				}
				if xrng.Intn(3) == 0 {
					a := xrng.Intn(n)
					sc.Redeliver = append(sc.Redeliver, [2]int{a, a + xrng.Intn(n-a)})
				}
				if n > 2 && xrng.Intn(4) == 0 {
					sc.RestartAt = 1 + xrng.Intn(n-1)
				}
				if kv == "sqlite" {
					kv = "memory"
				}
			}
			// a full Reindex() on the live index (rows, pending needs and queues of this history in place)
			sc.LiveReindex = xrng.Intn(4) == 0
			sc.LateDangling = true
			submit(job{w: w, wid: wid, sc: sc, kv: kv, want: want})
			r.Note("kv_kinds", kv)
		}
		// row-store faults on seeded orders of this set
		for o := 0; o < nFaultOrders; o++ {
			submitFaults(w, wid, frng.Perm(n), want)
		}
	}

	// 3. same-blob races: K concurrent uploads of one dependant while its dependency arrives
	rrng := r.Rand("race-worlds")
	nRaceWorlds := r.Pick(16, 48)
	nRaces := r.Pick(110, 400)
	for i := 0; i < nRaceWorlds; i++ {
		wo := hw.WorldOpts{Label: fmt.Sprintf("r%d", i), Permanodes: 1 + i%2, MaxClaims: 3, Files: 1, Dirs: i % 2, Deletes: 2, Opaque: 1, TwoSigners: i%3 == 2}
		switch i % 4 {
		case 0:
			wo.FileShape = "two-chunks"
		case 1:
			wo.FileShape = "nested-bytes"
			wo.DeleteKinds = []string{"claim", "delete"}
		case 2:
			wo.FileShape = "one-chunk"
			wo.DeleteKinds = []string{"permanode"}
		case 3:
			wo.BadSig = 1
			wo.SplitDir = true
			wo.Shares = 1
		}
		w := hw.GenWorld(rrng, wo)
		wid := fmt.Sprintf("race%d;", i)
		trng := rand.New(rand.NewSource(rrng.Int63()))
		if !r.Only(wid) {
			continue
		}
		want, ok := prepare(w, wid)
		if !ok {
			continue
		}
		pairs := racePairs(w)
		if len(pairs) == 0 {
			r.Count("race_worlds_without_pair", 1)
			continue
		}
		for t := 0; t < nRaces; t++ {
			rs := genRace(trng, w, pairs[t%len(pairs)])
			r.Note("race_dependant_kinds", w.Kind[w.Blobs[rs.F].Ref]+"<-"+w.Kind[w.Blobs[rs.D].Ref])
			r.Note("race_uploads", fmt.Sprintf("%d", rs.K))
			submit(job{w: w, wid: wid, want: want, race: rs, kv: "memory"})
		}
		r.Count("race_trials", nRaces)
	}
	close(jobs)
	wg.Wait()
	r.Require("schedule_modes", "sequential", "concurrent", "restart", "duplicates", "prefilled-source", "full-reindex", "dangling-then-delivered",
		"late-duplicates", "lanes", "lanes-with-restart", "live-reindex", "same-blob-race", "bad-signature-before-key")
	r.Require("schedule_modes", "kv-fault", "dangling-delivered-after-kv-fault", "dangling-delivered-after-kv-fault-and-restart")
	r.Require("kv_fault_delivered", faultInjected...)
	r.Extra("kv_fault_injected_at", faultInjected)
	r.Extra("kv_fault_never_injected_at", faultExcluded)
	r.Require("kv_fault_pending_note_failed", "file<-chunk", "directory<-static-set", "claim<-key", "permanode<-key", "delete<-key")
	r.Require("race_uploads", "2", "3", "4")
	r.Require("race_dependant_kinds", "claim<-key", "permanode<-key", "file<-chunk", "delete<-permanode", "delete<-claim", "directory<-static-set")
	if r.Only("") && r.Counter("race_trials") > 0 && r.Counter("race_trials_with_lookup_miss") == 0 {
		r.Inconclusive("no same-blob race ever saw a lookup of the dependency miss: the races did not overlap with the dependency's arrival")
	}
	r.Require("world_features", "bad-claim", "bad-permanode", "bad-delete", "split-static-set", "claim-share", "dangling-permanode", "claim-set-attribute", "claim-add-attribute", "claim-del-attribute", "delete-of-permanode", "delete-of-claim", "delete-of-delete", "nested-bytes", "directory")
}

// checkDangling: the dependants of the missing blob must be remembered as pending, and
// delivering the missing blob must converge to the state of the complete set.
func checkDangling(r *ev.Run, w *hw.World, wid string, ref result, rec caseRec) (wantFull []string) {
	r.Eval(1)
	if ref.needs == 0 {
		r.Violation("pending-dropped/no-needs/"+w.DanglingKind, fmt.Sprintf("world %s: %s %v is missing but the index remembers no pending blob", wid, w.DanglingKind, w.Dangling.Ref), rec)
	}
	rows := map[string]string{}
	for _, row := range ref.dump {
		i := strings.IndexByte(row, 0)
		rows[row[:i]] = row[i+1:]
	}
	for _, dep := range w.DanglingNeededBy {
		directly := w.Kind[dep] // every listed dependant needs the missing blob directly or through a nested part
		_ = directly
		if v, ok := rows["have:"+dep.String()]; ok && strings.HasSuffix(v, "|indexed") {
			// a dependant may legitimately be indexed without the missing blob only if it does not need it for
			// indexing; world generator lists only indexing dependencies, except chunks below a nested bytes blob
			if w.DanglingKind == "chunk" && w.Kind[dep] == "bytes" {
				continue // a bytes blob itself is indexed without reading its chunks
			}
			r.Violation("pending-dropped/indexed-without-dep/"+w.DanglingKind, fmt.Sprintf("world %s: %s %v is marked indexed although its dependency %v never arrived", wid, w.Kind[dep], dep, w.Dangling.Ref), rec)
		}
	}
	// now deliver the missing blob on a copy of the run: redo the run and deliver at the end
	full := *w
	full.Blobs = append(append([]sto.Blob(nil), w.Blobs...), *w.Dangling)
	full.Dangling = nil
	order := make([]int, len(full.Blobs))
	for i := range order {
		order[i] = i
	}
	late := execute(&full, schedule{Order: order}, "memory", "")
	// reference for the full set: dependency order
	fw := full
	fw.Blobs = (&full).DepOrder()
	o2 := make([]int, len(fw.Blobs))
	for i := range o2 {
		o2[i] = i
	}
	want := execute(&fw, schedule{Order: o2}, "memory", "")
	r.Eval(1)
	r.Note("schedule_modes", "dangling-then-delivered")
	if late.err != nil || want.err != nil {
		r.Violation("delivery-error/dangling", fmt.Sprintf("world %s: %v / %v", wid, late.err, want.err), rec)
		return nil
	}
	wantFull = want.dump
	if a, b := diff(want.dump, late.dump); len(a)+len(b) > 0 {
		kind := "?"
		if len(a) > 0 {
			kind = rowKind(a[0])
		} else {
			kind = rowKind(b[0])
		}
		r.Violation("order-dependence/dangling-late/"+kind, fmt.Sprintf("world %s: after late delivery of the missing %s, rows only in dependency order:%s; only after late delivery:%s", wid, w.DanglingKind, show(a), show(b)), rec)
	}
	// (a blob with an invalid signature that waited for the late key stays queued: it can never be indexed)
	if late.needs != 0 || late.neededBy != 0 || late.ready > len(w.Bad) {
		r.Violation("stale-pending/dangling-late", fmt.Sprintf("world %s: needs=%d neededBy=%d ready=%d after the missing blob arrived", wid, late.needs, late.neededBy, late.ready), rec)
	}
	return wantFull
}
