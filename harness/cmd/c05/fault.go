package main

// Transient row-store failures during an arrival history ("kv-fault" family).
//
// The index sits on a sorted.KeyValue that fails exactly ONE call: the n-th call of one
// (operation, row class, site) combination, e.g. "the 2nd Set of a missing| row made on behalf of
// an upload".  The failing call has no effect and returns an error.  The uploader behaves like
// every perkeep client: an upload that FAILED is sent again, an upload that was ACKNOWLEDGED is
// never sent again.  Whatever the index does with the failure, it has two honest choices: fail the
// upload (it is then retried and the history is one with a duplicate), or absorb the failure.  In
// both cases every acknowledged blob must in the end be indexed exactly as in the reference order,
// and a blob still waiting for a dependency must still be remembered as pending.
//
// A fair reading of the property under such a failure is: an upload that FAILS because of it and
// is re-sent is, for the index, a duplicate arrival after a partial effect; the final state must
// still equal the reference.  Failures are therefore injected only where the index can (and is
// meant to) fail the upload or where the failed call is harmless: see faultInjected /
// faultExcluded.
//
// The site of a call is "upload" (the call stack is that of the uploader's ReceiveBlob) or "async"
// (the call is made by the index's own out-of-order re-indexing goroutine).

import (
	"fmt"
	"math/rand"
	"runtime"
	"strings"
	"sync"

	"perkeep.org/pkg/blob"
	"perkeep.org/pkg/sorted"

	"verif.local/harness/ev"
	"verif.local/harness/hw"
	"verif.local/harness/inject"
)

// faultSpec selects the one row-store call that fails.
type faultSpec struct {
	Op    string `json:"op"`    // Get | Set | Delete | CommitBatch | Find
	Class string `json:"class"` // row class of the key (missing, have, meta, ...); "" for CommitBatch
	Site  string `json:"site"`  // upload | async
	Nth   int    `json:"nth"`   // 0-based, counted over the calls of this (op, class, site)
}

func (f faultSpec) key() string {
	c := f.Class
	if c == "" {
		c = "batch"
	}
	return f.Op + "-" + c + "@" + f.Site
}

// sig is the signature stem of the case: site first, so that a class of failures (all failures
// inside the asynchronous re-indexing, say) has a common prefix.
func (f faultSpec) sig() string {
	c := f.Class
	if c == "" {
		c = "batch"
	}
	return "kv-fault/" + f.Site + "/" + f.Op + "-" + c
}

// faultHit describes the call that was failed.
type faultHit struct {
	Op   string `json:"op"`
	Key  string `json:"key"`
	Site string `json:"site"`
	Pos  int    `json:"during_position"` // schedule position being delivered when the call was failed (-1: none)
}

// faultKV is the row store under the index.  Only calls made while it is armed are counted.
type faultKV struct {
	inner sorted.KeyValue
	spec  faultSpec

	mu    sync.Mutex
	armed bool
	pos   int
	n     int
	hit   *faultHit
	seen  map[string]int // op-class@site -> calls while armed
}

func newFaultKV(inner sorted.KeyValue, spec faultSpec) *faultKV {
	return &faultKV{inner: inner, spec: spec, pos: -1, seen: map[string]int{}}
}

func (k *faultKV) arm(on bool) {
	k.mu.Lock()
	k.armed = on
	k.mu.Unlock()
}

func (k *faultKV) setPos(pos int) {
	k.mu.Lock()
	k.pos = pos
	k.mu.Unlock()
}

func (k *faultKV) fired() *faultHit {
	k.mu.Lock()
	defer k.mu.Unlock()
	return k.hit
}

func (k *faultKV) counts() map[string]int {
	k.mu.Lock()
	defer k.mu.Unlock()
	out := make(map[string]int, len(k.seen))
	for c, n := range k.seen {
		out[c] = n
	}
	return out
}

// callSite tells whether the current row-store call is made by the index's out-of-order
// re-indexing goroutine or on behalf of an upload.
func callSite() string {
	var pcs [64]uintptr
	n := runtime.Callers(3, pcs[:])
	frames := runtime.CallersFrames(pcs[:n])
	for {
		f, more := frames.Next()
		if strings.HasSuffix(f.Function, ".indexReadyBlobs") {
			return "async"
		}
		if !more {
			return "upload"
		}
	}
}

// fail reports whether this call is the one to fail.
func (k *faultKV) fail(op, key string) bool {
	class := ""
	if op != "CommitBatch" {
		class = rowKind(key)
	}
	site := callSite()
	k.mu.Lock()
	defer k.mu.Unlock()
	if !k.armed {
		return false
	}
	k.seen[faultSpec{Op: op, Class: class, Site: site}.key()]++
	if k.hit != nil || op != k.spec.Op || class != k.spec.Class || site != k.spec.Site {
		return false
	}
	k.n++
	if k.n-1 != k.spec.Nth {
		return false
	}
	k.hit = &faultHit{Op: op, Key: key, Site: site, Pos: k.pos}
	return true
}

func (k *faultKV) Get(key string) (string, error) {
	if k.fail("Get", key) {
		return "", inject.ErrInjected
	}
	return k.inner.Get(key)
}

func (k *faultKV) Set(key, value string) error {
	if k.fail("Set", key) {
		return inject.ErrInjected
	}
	return k.inner.Set(key, value)
}

func (k *faultKV) Delete(key string) error {
	if k.fail("Delete", key) {
		return inject.ErrInjected
	}
	return k.inner.Delete(key)
}

func (k *faultKV) BeginBatch() sorted.BatchMutation { return k.inner.BeginBatch() }

func (k *faultKV) CommitBatch(b sorted.BatchMutation) error {
	if k.fail("CommitBatch", "") {
		return inject.ErrInjected
	}
	return k.inner.CommitBatch(b)
}

type failedIter struct{}

func (failedIter) Next() bool         { return false }
func (failedIter) Key() string        { return "" }
func (failedIter) KeyBytes() []byte   { return nil }
func (failedIter) Value() string      { return "" }
func (failedIter) ValueBytes() []byte { return nil }
func (failedIter) Close() error       { return inject.ErrInjected }

func (k *faultKV) Find(start, end string) sorted.Iterator {
	if k.fail("Find", start) {
		return failedIter{}
	}
	return k.inner.Find(start, end)
}

func (k *faultKV) Close() error { return nil } // execute owns the inner store

func (k *faultKV) Wipe() error {
	if w, ok := k.inner.(sorted.Wiper); ok {
		return w.Wipe()
	}
	return fmt.Errorf("faultKV: inner store cannot be wiped")
}

// outOfOrderArrivals counts the blobs of the schedule that arrive before one of their
// dependencies (or whose dependency never arrives), and the delete claims among the blobs.
func outOfOrderArrivals(w *hw.World, order []int) (early, deletes int) {
	at := map[blob.Ref]int{}
	for pos, i := range order {
		at[w.Blobs[i].Ref] = pos
	}
	for pos, i := range order {
		b := w.Blobs[i]
		if w.Kind[b.Ref] == "delete" {
			deletes++
		}
		for _, d := range w.Deps[b.Ref] {
			if p, ok := at[d]; !ok || p > pos {
				early++
				break
			}
		}
	}
	return
}

// faultSpecsFor returns the fault cases of one (world, order): for every (operation, row class,
// site) the index is known to use, one call picked by rng among as many calls as the history is
// expected to make at least (a pick beyond the calls really made is a run without fault, counted
// as such); every failing Set of a missing| row of an upload is enumerated.
func faultSpecsFor(rng *rand.Rand, w *hw.World, order []int) []faultSpec {
	n := len(order)
	early, deletes := outOfOrderArrivals(w, order)
	var out []faultSpec
	pick := func(op, class, site string, bound int) {
		if bound <= 0 {
			return
		}
		out = append(out, faultSpec{Op: op, Class: class, Site: site, Nth: rng.Intn(bound)})
	}
	for k := 0; k < early; k++ {
		out = append(out, faultSpec{Op: "Set", Class: "missing", Site: "upload", Nth: k})
	}
	pick("CommitBatch", "", "upload", n)
	pick("Get", "have", "upload", n)
	pick("Find", "missing", "upload", n)
	_ = deletes
	return out
}

// faultExcluded lists the (operation-row class @ site) combinations that are deliberately never
// failed: there perkeep's design is log-and-continue with nobody left who could retry (the
// uploader was acknowledged long ago, or is acknowledged regardless), so a failure there is a
// statement about storage faults, which the property does not quantify over.
var faultExcluded = []string{
	"Get-meta@upload (populateDeleteClaim's lookup of the delete claim's target: a failed lookup is logged and the claim is indexed without its deletion)",
	"Delete-missing@upload (noteBlobIndexedLocked / removeAllMissingEdges: a failed deletion of a pending edge is logged; the stale edge is reloaded when the index is re-opened)",
	"*@async (any row-store call made by the asynchronous re-indexer indexReadyBlobs: a blob whose re-indexing fails is parked in the ready queue and nobody retries it)",
}

// faultInjected lists the combinations that are failed.
var faultInjected = []string{"Set-missing@upload", "CommitBatch-batch@upload", "Get-have@upload", "Find-missing@upload"}

// splitMissing separates the missing| rows (the persisted pending edges) from the other rows.
func splitMissing(rows []string) (missing, other []string) {
	for _, row := range rows {
		if strings.HasPrefix(row, "missing|") {
			missing = append(missing, row)
		} else {
			other = append(other, row)
		}
	}
	return
}

// cmpFault compares the rows after a history with one failed row-store call with the reference:
// all rows but the pending edges must be equal (every acknowledged blob is indexed as in the
// reference, nothing else is); every pending edge of the reference must be there (what still
// waits is remembered).  Pending edges beyond the reference's (an edge whose deletion failed)
// are returned as stale: the code documents them as cleaned up lazily, so they are reported as
// evidence only; what they can do wrong is judged by continuing the history.
func cmpFault(want, got []string) (onlyWant, onlyGot, lostEdges, stale []string) {
	wm, wo := splitMissing(want)
	gm, gother := splitMissing(got)
	onlyWant, onlyGot = diff(wo, gother)
	lostEdges, stale = diff(wm, gm)
	return
}

func diffKind(a, b []string) string {
	if len(a) > 0 {
		return rowKind(a[0])
	}
	if len(b) > 0 {
		return rowKind(b[0])
	}
	return "?"
}

// missingEdgeKinds renders the edge of a missing|have|needed key as "file<-chunk".
func missingEdgeKinds(w *hw.World, key string) string {
	parts := strings.Split(key, "|")
	if len(parts) != 3 {
		return "?"
	}
	have, ok1 := blob.Parse(parts[1])
	need, ok2 := blob.Parse(parts[2])
	if !ok1 || !ok2 {
		return "?"
	}
	kind := func(br blob.Ref) string {
		if w.Dangling != nil && br == w.Dangling.Ref {
			return w.DanglingKind
		}
		if k := w.Kind[br]; k != "" {
			return k
		}
		return "?"
	}
	return kind(have) + "<-" + kind(need)
}

// judgeFault is the oracle of the kv-fault family.
func judgeFault(r *ev.Run, j job, res result, rec caseRec) {
	spec := *j.sc.Fault
	r.Note("schedule_modes", "kv-fault")
	r.Distinct(fmt.Sprintf("%s/kv-fault/%v/%v/late=%v,%v", j.wid, j.sc.Order, spec, j.sc.LateDangling, j.sc.LateRestart))
	r.Count("kv_fault_runs", 1)
	if res.err != nil {
		r.Violation(spec.sig()+"/delivery-error", fmt.Sprintf("world %s: with one failed row-store call (%s) and failed uploads retried: %v", j.wid, spec.key(), res.err), rec)
		return
	}
	hit := res.fault
	outcome := "not-reached"
	if hit != nil {
		switch {
		case hit.Site == "async":
			outcome = "failed-in-async-reindex"
		case res.faultRetried > 0:
			outcome = "upload-failed-and-was-retried"
		default:
			outcome = "upload-acknowledged"
		}
		r.Note("kv_fault_delivered", spec.key())
		r.Note("kv_fault_outcomes", spec.key()+": "+outcome)
		if hit.Op == "Set" && spec.Class == "missing" && hit.Site == "upload" {
			r.Note("kv_fault_pending_note_failed", missingEdgeKinds(j.w, hit.Key))
		}
	} else {
		r.Count("kv_fault_runs_fault_not_reached", 1)
	}
	type witness struct {
		caseRec
		Hit     *faultHit `json:"failed_call"`
		Outcome string    `json:"outcome"`
		Retried int       `json:"uploads_retried"`
	}
	wit := witness{rec, hit, outcome, res.faultRetried}
	what := fmt.Sprintf("world %s: one row-store call failed without effect (%s", j.wid, spec.key())
	if hit != nil {
		what += fmt.Sprintf(" %q during arrival #%d; %s", hit.Key, hit.Pos, outcome)
	}
	what += "); failed uploads were retried, acknowledged ones were not"

	for c := range res.kvCalls {
		r.Note("kv_fault_row_store_calls_seen", c)
	}
	onlyWant, onlyGot, lost, stale := cmpFault(j.want, res.dump)
	if len(stale) > 0 {
		r.Count("kv_fault_runs_with_stale_pending_edge", 1)
	}
	bad := false
	if len(onlyWant)+len(onlyGot) > 0 {
		bad = true
		r.Violation(fmt.Sprintf("%s/end/%s", spec.sig(), diffKind(onlyWant, onlyGot)),
			fmt.Sprintf("%s: rows only in the dependency-order index:%s; rows only here:%s", what, show(onlyWant), show(onlyGot)), wit)
	} else if len(lost) > 0 {
		bad = true
		r.Violation(fmt.Sprintf("%s/end/pending-edge-lost", spec.sig()),
			fmt.Sprintf("%s: blobs still wait for a dependency but these pending edges are not recorded:%s", what, show(lost)), wit)
	}
	if bad || !res.lateDone {
		return
	}
	// the history continues: the blob that was missing arrives (on the same index, or after the
	// index was re-opened over the same rows)
	r.Eval(1)
	cont := "dangling-delivered-after-kv-fault"
	if j.sc.LateRestart {
		cont = "dangling-delivered-after-kv-fault-and-restart"
	}
	r.Note("schedule_modes", cont)
	if res.lateErr != nil {
		r.Violation(spec.sig()+"/late/delivery-error", fmt.Sprintf("%s; then %v", what, res.lateErr), wit)
		return
	}
	onlyWant, onlyGot, lost, stale = cmpFault(j.wantFull, res.lateDump)
	if len(stale) > 0 {
		r.Count("kv_fault_runs_with_stale_pending_edge_at_end", 1)
	}
	if len(onlyWant)+len(onlyGot)+len(lost) > 0 {
		r.Violation(fmt.Sprintf("%s/late/%s", spec.sig(), diffKind(onlyWant, onlyGot)),
			fmt.Sprintf("%s; then the missing %s was delivered (index re-opened first: %v): rows only in the dependency-order index of the complete set:%s; rows only here:%s",
				what, j.w.DanglingKind, j.sc.LateRestart, show(onlyWant), show(onlyGot)), wit)
	}
}
