package main

// Same-blob races: K concurrent uploads of ONE dependant blob F while its dependency D arrives
// concurrently.  The index serialises uploads of one blob through its pending map and closes the
// window between "dependency looked up and not found" and "need recorded" with recentDone; both
// only matter when several uploads of the same blob overlap with the arrival of the dependency.
//
// The interleaving is steered at the two places where an upload learns that D is not there yet:
// the blob source's Fetch(D) (keys, chunks, bytes, static sets) and the row store's
// Get("meta:"+D) (targets of delete claims).  A seeded policy decides, per not-found answer,
// whether it is returned at once or held until a logical event (the dependency's delivery has
// returned / one more upload of F has returned).  Holds fall back to a short timer, so the
// policy only shapes the schedule; verdicts are taken from the final rows alone.

import (
	"context"
	"fmt"
	"io"
	"math/rand"
	"runtime"
	"sync"
	"sync/atomic"
	"time"

	"perkeep.org/pkg/blob"
	"perkeep.org/pkg/blobserver/memory"
	"perkeep.org/pkg/sorted"

	"verif.local/harness/ev"
	"verif.local/harness/hw"
)

// actions of the lookup gate
const (
	actNow = iota
	actYield
	actSleep
	actHoldDep    // hold the not-found answer until the dependency's delivery has returned
	actHoldUpload // hold it until one more upload of F has returned
	nActs
)

var actNames = [nActs]string{"now", "yield", "sleep", "hold-until-dependency-delivered", "hold-until-next-upload-returned"}

type raceSpec struct {
	F              int   `json:"dependant"`  // index into world blobs (dependency-order numbering)
	D              int   `json:"dependency"` // the dependency of F that arrives during the race
	K              int   `json:"uploads"`    // concurrent uploads of F
	Pre            []int `json:"before"`     // delivered sequentially before the race
	Extra          []int `json:"during"`     // delivered by one more goroutine during the race
	Post           []int `json:"after"`      // delivered sequentially after the race
	DepAfterMisses int   `json:"dependency_after_misses"`
	Policy         []int `json:"policy"`     // action for the n-th not-found answer about D (cyclic)
	SleepUS        []int `json:"sleep_us"`   // duration for actSleep (cyclic)
	StaggerUS      []int `json:"stagger_us"` // start offsets of the K uploads (cyclic)
}

const holdFallback = 4 * time.Millisecond

type raceGate struct {
	spec   *raceSpec
	dep    blob.Ref
	active atomic.Bool

	mu       sync.Mutex
	misses   int
	missCh   chan struct{} // closed and replaced at every miss
	uploads  int
	uploadCh chan struct{} // closed and replaced when an upload of F returns
	depDone  chan struct{}

	acts     [nActs]int64
	fallback int64
	maxHeld  int64
	held     int64
}

func newRaceGate(spec *raceSpec, dep blob.Ref) *raceGate {
	return &raceGate{spec: spec, dep: dep, missCh: make(chan struct{}), uploadCh: make(chan struct{}), depDone: make(chan struct{})}
}

// notFound is called when a lookup of the dependency came back empty.
func (g *raceGate) notFound() {
	if !g.active.Load() {
		return
	}
	g.mu.Lock()
	n := g.misses
	g.misses++
	close(g.missCh)
	g.missCh = make(chan struct{})
	upCh := g.uploadCh
	g.mu.Unlock()
	act := actNow
	if len(g.spec.Policy) > 0 {
		act = g.spec.Policy[n%len(g.spec.Policy)]
	}
	atomic.AddInt64(&g.acts[act], 1)
	h := atomic.AddInt64(&g.held, 1)
	for {
		m := atomic.LoadInt64(&g.maxHeld)
		if h <= m || atomic.CompareAndSwapInt64(&g.maxHeld, m, h) {
			break
		}
	}
	defer atomic.AddInt64(&g.held, -1)
	switch act {
	case actYield:
		runtime.Gosched()
	case actSleep:
		us := 50
		if len(g.spec.SleepUS) > 0 {
			us = g.spec.SleepUS[n%len(g.spec.SleepUS)]
		}
		time.Sleep(time.Duration(us) * time.Microsecond)
	case actHoldDep:
		t := time.NewTimer(holdFallback)
		select {
		case <-g.depDone:
		case <-t.C:
			atomic.AddInt64(&g.fallback, 1)
		}
		t.Stop()
	case actHoldUpload:
		t := time.NewTimer(holdFallback)
		select {
		case <-upCh:
		case <-t.C:
			atomic.AddInt64(&g.fallback, 1)
		}
		t.Stop()
	}
}

func (g *raceGate) uploadReturned() {
	g.mu.Lock()
	g.uploads++
	close(g.uploadCh)
	g.uploadCh = make(chan struct{})
	g.mu.Unlock()
}

// waitMisses returns once n lookups of the dependency have missed (or the fallback timer fired).
func (g *raceGate) waitMisses(n int) {
	t := time.NewTimer(holdFallback)
	defer t.Stop()
	for {
		g.mu.Lock()
		if g.misses >= n {
			g.mu.Unlock()
			return
		}
		ch := g.missCh
		g.mu.Unlock()
		select {
		case <-ch:
		case <-t.C:
			atomic.AddInt64(&g.fallback, 1)
			return
		}
	}
}

type gateSrc struct {
	*memory.Storage
	g *raceGate
}

func (s *gateSrc) Fetch(ctx context.Context, br blob.Ref) (io.ReadCloser, uint32, error) {
	rc, size, err := s.Storage.Fetch(ctx, br)
	if err != nil && br == s.g.dep {
		s.g.notFound()
	}
	return rc, size, err
}

type gateKV struct {
	sorted.KeyValue
	g   *raceGate
	key string
}

func (k *gateKV) Get(key string) (string, error) {
	v, err := k.KeyValue.Get(key)
	if err == sorted.ErrNotFound && key == k.key {
		k.g.notFound()
	}
	return v, err
}

func (k *gateKV) Wipe() error { return k.KeyValue.(sorted.Wiper).Wipe() }

// executeRace runs one same-blob race on a fresh index over a fresh memory KV.
func executeRace(r *ev.Run, w *hw.World, rs *raceSpec) (res result) {
	db := w.Blobs[rs.D]
	g := newRaceGate(rs, db.Ref)
	inner := sorted.NewMemoryKeyValue()
	kv := &gateKV{KeyValue: inner, g: g, key: "meta:" + db.Ref.String()}
	src := &gateSrc{Storage: &memory.Storage{}, g: g}
	x, err := hw.NewIdx(kv, src, false)
	if err != nil {
		res.err = err
		return
	}
	deliver := func(i int, what string) error {
		b := w.Blobs[i]
		if err := x.Deliver(b); err != nil && !tolerable(w, b) {
			return fmt.Errorf("%s %d %v (%s): %w", what, i, b.Ref, w.Kind[b.Ref], err)
		}
		return nil
	}
	for _, i := range rs.Pre {
		if err := deliver(i, "deliver before the race"); err != nil {
			res.err = err
			return
		}
	}
	x.Quiesce()
	g.active.Store(true)
	var wg sync.WaitGroup
	errs := make([]error, rs.K+2)
	start := make(chan struct{})
	for u := 0; u < rs.K; u++ {
		wg.Add(1)
		go func(u int) {
			defer wg.Done()
			<-start
			if len(rs.StaggerUS) > 0 {
				if us := rs.StaggerUS[u%len(rs.StaggerUS)]; us > 0 {
					time.Sleep(time.Duration(us) * time.Microsecond)
				}
			}
			errs[u] = deliver(rs.F, fmt.Sprintf("racing upload %d of", u))
			g.uploadReturned()
		}(u)
	}
	wg.Add(1)
	go func() {
		defer wg.Done()
		<-start
		g.waitMisses(rs.DepAfterMisses)
		errs[rs.K] = deliver(rs.D, "deliver (during the race) the dependency")
		close(g.depDone)
	}()
	if len(rs.Extra) > 0 {
		wg.Add(1)
		go func() {
			defer wg.Done()
			<-start
			for _, i := range rs.Extra {
				if err := deliver(i, "deliver during the race"); err != nil {
					errs[rs.K+1] = err
					return
				}
			}
		}()
	}
	close(start)
	wg.Wait()
	g.active.Store(false)
	for _, e := range errs {
		if e != nil {
			res.err = e
			return
		}
	}
	for _, i := range rs.Post {
		if err := deliver(i, "deliver after the race"); err != nil {
			res.err = err
			return
		}
	}
	x.Quiesce()
	res.needs, res.neededBy, res.ready = x.Index.VerifPending()
	res.dump, res.err = hw.Dump(inner)
	for a := 0; a < nActs; a++ {
		if n := atomic.LoadInt64(&g.acts[a]); n > 0 {
			r.Count("race_lookup_answers_"+actNames[a], int(n))
		}
	}
	r.Count("race_hold_fallbacks", int(atomic.LoadInt64(&g.fallback)))
	g.mu.Lock()
	misses := g.misses
	g.mu.Unlock()
	if misses > 0 {
		r.Count("race_trials_with_lookup_miss", 1)
	}
	if misses > rs.K {
		r.Count("race_trials_with_more_misses_than_uploads", 1)
	}
	if atomic.LoadInt64(&g.maxHeld) >= 2 {
		r.Count("race_trials_with_overlapping_lookups", 1)
	}
	return
}

// racePair is a (dependant, dependency) pair where indexing the dependant looks the dependency up.
type racePair struct{ F, D int }

// racePairs lists the pairs of w: signed blobs and their key, files/bytes and their parts,
// directories and their static set, delete claims and their target.  (A claim does not need its
// permanode to be indexed, so that edge is no lookup.)
func racePairs(w *hw.World) []racePair {
	idx := map[blob.Ref]int{}
	for i, b := range w.Blobs {
		idx[b.Ref] = i
	}
	var out []racePair
	for i, b := range w.Blobs {
		fk := w.Kind[b.Ref]
		for _, d := range w.Deps[b.Ref] {
			di, ok := idx[d]
			if !ok {
				continue
			}
			dk := w.Kind[d]
			if fk == "claim" && dk != "key" {
				continue
			}
			if fk == "bytes" {
				continue // a bytes blob is indexed without reading its parts
			}
			out = append(out, racePair{i, di})
		}
	}
	return out
}

func genRace(rng *rand.Rand, w *hw.World, p racePair) *raceSpec {
	rs := &raceSpec{F: p.F, D: p.D}
	rs.K = []int{2, 3, 3, 3, 4, 4, 5, 6}[rng.Intn(8)]
	var others []int
	for _, i := range rng.Perm(len(w.Blobs)) {
		if i != p.F && i != p.D {
			others = append(others, i)
		}
	}
	// how much of the rest arrives before / during / after the race
	nPre := rng.Intn(len(others) + 1)
	if rng.Intn(3) == 0 {
		nPre = len(others)
	}
	rs.Pre = others[:nPre]
	rest := others[nPre:]
	nExtra := 0
	if len(rest) > 0 && rng.Intn(3) == 0 {
		nExtra = 1 + rng.Intn(len(rest))
	}
	rs.Extra, rs.Post = rest[:nExtra], rest[nExtra:]
	rs.DepAfterMisses = rng.Intn(2 * rs.K)
	weights := [][]int{
		{actNow, actNow, actYield, actSleep, actHoldDep, actHoldUpload},
		{actNow, actHoldDep},
		{actNow, actYield, actSleep},
		{actNow, actSleep, actHoldDep, actHoldDep},
	}[rng.Intn(4)]
	for i := 0; i < 12; i++ {
		rs.Policy = append(rs.Policy, weights[rng.Intn(len(weights))])
		rs.SleepUS = append(rs.SleepUS, []int{5, 20, 50, 100, 300, 800}[rng.Intn(6)])
	}
	for u := 0; u < rs.K; u++ {
		rs.StaggerUS = append(rs.StaggerUS, []int{0, 0, 0, 10, 50, 200}[rng.Intn(6)])
	}
	return rs
}

// randomLanes deals the positions 0..n-1 to g lanes at random (each lane keeps ascending
// position order); about a tenth of the positions is given to one or two further lanes as well.
func randomLanes(rng *rand.Rand, n, g int) [][]int {
	lanes := make([][]int, g)
	for pos := 0; pos < n; pos++ {
		l := rng.Intn(g)
		lanes[l] = append(lanes[l], pos)
		if rng.Intn(10) == 0 {
			for extra := 1 + rng.Intn(2); extra > 0; extra-- {
				l2 := rng.Intn(g)
				lanes[l2] = append(lanes[l2], pos)
			}
		}
	}
	return lanes
}
