package main

import (
	"context"
	"encoding/json"
	"fmt"
	"sort"
	"strings"
	"time"

	"go4.org/types"
	"perkeep.org/pkg/index"
	"perkeep.org/pkg/schema"
	"perkeep.org/pkg/search"

	"verif.local/harness/hw"
)

// searchProbe asks a fixed list of search-handler queries (with the corpus attached, as the
// server runs it) and returns the answers in canonical form: result sequences for sorted
// queries, result sets for unsorted ones, plus a canonical rendering of the descriptions.
func searchProbe(x *hw.Idx, w *hw.World, o hw.ProbeOpts) []hw.Answer {
	ctx := context.Background()
	s := w.Signers[0]
	sh := search.NewHandler(x.Index, index.NewOwner(s.KeyID, s.PubRef))
	sh.SetCorpus(x.Corpus)
	type q struct {
		name   string
		q      *search.SearchQuery
		sorted bool
	}
	pc := func(c *search.PermanodeConstraint) *search.Constraint { return &search.Constraint{Permanode: c} }
	var qs []q
	for _, st := range []search.SortType{search.CreatedDesc, search.LastModifiedDesc, search.BlobRefAsc} {
		b, _ := st.MarshalJSON()
		qs = append(qs, q{"camliType=permanode sort=" + string(b), &search.SearchQuery{Constraint: &search.Constraint{CamliType: schema.TypePermanode}, Sort: st, Limit: -1}, true})
	}
	qs = append(qs,
		q{"permanode any (default sort) +describe", &search.SearchQuery{Constraint: pc(&search.PermanodeConstraint{SkipHidden: true}), Limit: -1,
			Describe: &search.DescribeRequest{Depth: 2}}, true},
		q{"permanode has title", &search.SearchQuery{Constraint: pc(&search.PermanodeConstraint{Attr: "title", ValueMatches: &search.StringConstraint{ByteLength: &search.IntConstraint{Min: 1}}}), Sort: search.LastModifiedDesc, Limit: -1}, true},
		q{"permanode tag=foo", &search.SearchQuery{Constraint: pc(&search.PermanodeConstraint{Attr: "tag", Value: "foo"}), Sort: search.BlobRefAsc, Limit: -1}, true},
		q{"permanode with file content", &search.SearchQuery{Constraint: pc(&search.PermanodeConstraint{Attr: "camliContent", ValueInSet: &search.Constraint{File: &search.FileConstraint{}}}), Limit: -1}, true},
		q{"permanode with image content", &search.SearchQuery{Constraint: pc(&search.PermanodeConstraint{Attr: "camliContent", ValueInSet: &search.Constraint{File: &search.FileConstraint{IsImage: true}}}), Limit: -1,
			Describe: &search.DescribeRequest{Depth: 1}}, true},
		q{"permanode with located content", &search.SearchQuery{Constraint: pc(&search.PermanodeConstraint{Location: &search.LocationConstraint{Any: true}}), Limit: -1}, true},
		q{"files", &search.SearchQuery{Constraint: &search.Constraint{File: &search.FileConstraint{}}, Limit: -1, Describe: &search.DescribeRequest{Depth: 1}}, false},
		q{"image files", &search.SearchQuery{Constraint: &search.Constraint{File: &search.FileConstraint{IsImage: true}}, Limit: -1}, false},
		q{"files with media tag title", &search.SearchQuery{Constraint: &search.Constraint{File: &search.FileConstraint{MediaTag: &search.MediaTagConstraint{Tag: "title", String: &search.StringConstraint{ByteLength: &search.IntConstraint{Min: 1}}}}}, Limit: -1}, false},
		q{"dirs", &search.SearchQuery{Constraint: &search.Constraint{Dir: &search.DirConstraint{}}, Limit: -1, Describe: &search.DescribeRequest{Depth: 1}}, false},
		q{"limit 1 newest", &search.SearchQuery{Constraint: &search.Constraint{CamliType: schema.TypePermanode}, Sort: search.CreatedDesc, Limit: 1}, true},
	)
	for _, nt := range o.NodeTypes {
		qs = append(qs, q{fmt.Sprintf("camliNodeType=%q", nt), &search.SearchQuery{Constraint: pc(&search.PermanodeConstraint{Attr: "camliNodeType", Value: nt}), Sort: search.BlobRefAsc, Limit: -1}, true})
	}
	// attribute value at a time in the past
	for i, at := range o.FewTimes {
		if at.IsZero() || i%2 == 0 {
			continue
		}
		qs = append(qs, q{"permanode has title at=" + at.UTC().Format(time.RFC3339Nano),
			&search.SearchQuery{Constraint: pc(&search.PermanodeConstraint{At: at, Attr: "title", ValueMatches: &search.StringConstraint{ByteLength: &search.IntConstraint{Min: 1}}}), Sort: search.BlobRefAsc, Limit: -1,
				Describe: &search.DescribeRequest{Depth: 1, At: types.Time3339(at)}}, true})
	}
	var out []hw.Answer
	for _, qq := range qs {
		res, err := sh.Query(ctx, qq.q)
		a := "ok"
		if err != nil {
			a = "err:" + err.Error()
		}
		if res != nil {
			var refs []string
			for _, b := range res.Blobs {
				refs = append(refs, b.Blob.String())
			}
			if !qq.sorted {
				sort.Strings(refs)
			}
			a += " [" + strings.Join(refs, " ") + "]"
			if res.Describe != nil {
				a += " " + canonDescribe(res.Describe)
			}
			if res.LocationArea != nil {
				a += fmt.Sprintf(" area=%v", *res.LocationArea)
			}
		}
		out = append(out, hw.Answer{Q: "search.Query " + qq.name, A: a})
	}
	return out
}

func canonDescribe(d *search.DescribeResponse) string {
	var keys []string
	for k := range d.Meta {
		keys = append(keys, k)
	}
	sort.Strings(keys)
	var sb strings.Builder
	sb.WriteString("describe{")
	for _, k := range keys {
		db := d.Meta[k]
		if db == nil {
			continue
		}
		fmt.Fprintf(&sb, "%s:%s:%d", k, db.CamliType, db.Size)
		if db.Permanode != nil {
			aj, _ := json.Marshal(db.Permanode.Attr)
			fmt.Fprintf(&sb, " attr=%s mod=%s", aj, db.Permanode.ModTime.UTC().Format(time.RFC3339Nano))
		}
		if db.File != nil {
			fj, _ := json.Marshal(db.File)
			fmt.Fprintf(&sb, " file=%s", fj)
		}
		if db.Dir != nil {
			fj, _ := json.Marshal(db.Dir)
			fmt.Fprintf(&sb, " dir=%s", fj)
		}
		if db.Image != nil {
			fmt.Fprintf(&sb, " image=%v", *db.Image)
		}
		if db.MediaTags != nil {
			mj, _ := json.Marshal(db.MediaTags)
			fmt.Fprintf(&sb, " media=%s", mj)
		}
		if len(db.DirChildren) > 0 {
			var cs []string
			for _, c := range db.DirChildren {
				cs = append(cs, c.String())
			}
			sort.Strings(cs)
			fmt.Fprintf(&sb, " children=%v", cs)
		}
		if db.Location != nil {
			fmt.Fprintf(&sb, " loc=%v", *db.Location)
		}
		sb.WriteString("; ")
	}
	sb.WriteString("}")
	return sb.String()
}
