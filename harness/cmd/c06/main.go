// C06 — live index and corpus always equal what a restart would load.
package main

import (
	"fmt"
	"io"
	"log"
	"math/rand"
	"os"
	"strings"
	"sync"

	"perkeep.org/pkg/blob"
	"perkeep.org/pkg/blobserver/memory"
	"perkeep.org/pkg/index"
	"perkeep.org/pkg/sorted"
	"perkeep.org/pkg/types/camtypes"

	"verif.local/harness/ev"
	"verif.local/harness/hw"
	"verif.local/harness/sto"
)

type caseRec struct {
	CaseID  string         `json:"case_id"`
	World   map[string]any `json:"world"`
	Blobs   []string       `json:"blobs"`
	Order   []int          `json:"order"`
	Prefix  int            `json:"prefix_len"`
	Corpus  bool           `json:"live_has_corpus"`
	KV      string         `json:"kv"`
	Prefill bool           `json:"prefill"`
	Diffs   []string       `json:"diffs,omitempty"`
}

func main() {
	ev.Main("C06", "exploration",
		"generated blob sets (as C05) delivered in seeded orders; at every sampled prefix (all prefixes for short histories), after the asynchronous reindexers quiesce, a grid of lookups (GetBlobMeta, IsDeleted, AppendClaims, attribute values at a grid of times/signers, modtimes, file/dir info, paths, edges, recent/ordered permanodes, attr search) is asked of the live index(+corpus) and of a fresh index(+corpus) opened over a copy of the same rows; distinct = (world, order, prefix, mode); non-trivial = prefix contains at least one claim",
		run)
}

type job struct {
	w       *hw.World
	wid     string
	order   []int
	corpus  bool
	kv      string
	prefill bool
	every   int // probe every n-th prefix (1 = all)
}

func newKV(kind, dir string) (sorted.KeyValue, func(), error) {
	if kind == "" || kind == "memory" {
		return sorted.NewMemoryKeyValue(), func() {}, nil
	}
	d, err := os.MkdirTemp(dir, "kv")
	if err != nil {
		return nil, nil, err
	}
	env := &sto.Env{Dir: d}
	conf, _, err := env.KVConf(kind, "c06")
	if err != nil {
		return nil, nil, err
	}
	kv, err := sorted.NewKeyValue(conf)
	if err != nil {
		return nil, nil, err
	}
	return kv, func() { kv.Close(); os.RemoveAll(d) }, nil
}

func method(q string) string {
	if i := strings.IndexByte(q, ' '); i > 0 {
		return q[:i]
	}
	return q
}

func runJob(r *ev.Run, j job, root string, sampleMu *sync.Mutex, sampled *int) {
	kv, closeKV, err := newKV(j.kv, root)
	if err != nil {
		r.Inconclusive("kv: " + err.Error())
		return
	}
	defer closeKV()
	ms := &memory.Storage{}
	if j.prefill {
		sto.StoreAll(ms, j.w.Blobs)
	}
	live, err := hw.NewIdx(kv, ms, j.corpus)
	if err != nil {
		r.Inconclusive("index.New: " + err.Error())
		return
	}
	opts := hw.WorldProbeOpts(j.w)
	delivered := map[blob.Ref]int{}
	delBeforeTarget := false
	nClaims := 0
	mode := "nocorpus"
	if j.corpus {
		mode = "corpus"
	}
	for pos, bi := range j.order {
		b := j.w.Blobs[bi]
		if err := live.Deliver(b); err != nil {
			r.Violation("delivery-error/"+mode, fmt.Sprintf("world %s: deliver %v: %v", j.wid, b.Ref, err), caseRec{CaseID: j.wid, Order: j.order, Prefix: pos})
			return
		}
		delivered[b.Ref] = pos + 1
		k := j.w.Kind[b.Ref]
		if k == "claim" || k == "delete" {
			nClaims++
		}
		if k == "delete" {
			for _, c := range j.w.Claims {
				if c.Ref == b.Ref && delivered[c.Target] == 0 {
					delBeforeTarget = true
				}
			}
		}
		if (pos+1)%j.every != 0 && pos != len(j.order)-1 {
			// light probe at every other prefix: the time orderings of the live corpus (cached,
			// lazily sorted) against a corpus loaded from the same rows
			if j.corpus {
				live.Quiesce()
				cp, err := hw.CopyKV(kv)
				if err == nil {
					if fresh, err := hw.NewIdx(cp, ms, true); err == nil {
						a := lightProbe(live, j.w)
						b2 := lightProbe(fresh, j.w)
						r.Eval(len(a))
						for _, d := range hw.DiffAnswers(a, b2) {
							r.Violation("live-vs-reload/corpus/"+method(d)+"/light", fmt.Sprintf("world %s, after %d of %d arrivals: %s", j.wid, pos+1, len(j.order), d),
								caseRec{CaseID: j.wid, World: j.w.Describe(), Order: j.order, Prefix: pos + 1, Corpus: true, KV: j.kv, Diffs: []string{d}})
							break
						}
					}
				}
			}
			continue
		}
		live.Quiesce()
		// reload: a fresh index (+corpus) over a copy of the rows
		cp, err := hw.CopyKV(kv)
		if err != nil {
			r.Inconclusive("copy kv: " + err.Error())
			return
		}
		fresh, err := hw.NewIdx(cp, ms, true)
		if err != nil {
			r.Violation("reload-fails/"+mode, fmt.Sprintf("world %s prefix %d: opening a fresh index over the persisted rows failed: %v", j.wid, pos+1, err),
				caseRec{CaseID: j.wid, Order: j.order, Prefix: pos + 1, Corpus: j.corpus, KV: j.kv})
			return
		}
		freshCorpus := fresh.Corpus
		liveCorpus := live.Corpus
		// The fresh index without corpus answers the index-level questions the same way a
		// corpus-less live index must; to compare like with like, the reloaded side gets a
		// corpus only when the live side has one.
		var freshForCompare *hw.Idx = fresh
		if !j.corpus {
			cp2, _ := hw.CopyKV(kv)
			freshForCompare, err = hw.NewIdx(cp2, ms, false)
			if err != nil {
				r.Violation("reload-fails/"+mode, fmt.Sprintf("world %s prefix %d: %v", j.wid, pos+1, err), nil)
				return
			}
			freshCorpus = nil
		}
		a := hw.Probe(live.Index, liveCorpus, opts)
		b2 := hw.Probe(freshForCompare.Index, freshCorpus, opts)
		r.Eval(len(a))
		if nClaims > 0 {
			r.Distinct(fmt.Sprintf("%s/%v/%d/%s/%s", j.wid, j.order, pos, mode, j.kv))
		}
		r.Note("modes", mode)
		r.Note("kv_kinds", j.kv)
		if n1, _, _ := live.Index.VerifPending(); n1 > 0 {
			r.Note("moments", "with-pending-dependencies")
		} else {
			r.Note("moments", "no-pending")
		}
		diffs := hw.DiffAnswers(a, b2)
		if len(diffs) > 0 {
			rec := caseRec{CaseID: j.wid, World: j.w.Describe(), Order: j.order, Prefix: pos + 1, Corpus: j.corpus, KV: j.kv, Prefill: j.prefill, Diffs: diffs}
			for i, bb := range j.w.Blobs {
				rec.Blobs = append(rec.Blobs, fmt.Sprintf("%d:%s:%s", i, j.w.Kind[bb.Ref], bb.Ref))
			}
			if len(rec.Diffs) > 12 {
				rec.Diffs = rec.Diffs[:12]
			}
			seen := map[string]bool{}
			for _, d := range diffs {
				m := method(d)
				sig := "live-vs-reload/" + mode + "/" + m
				if delBeforeTarget {
					sig += "/delete-before-target"
				}
				if seen[sig] {
					continue
				}
				seen[sig] = true
				r.Violation(sig, fmt.Sprintf("world %s, after %d of %d arrivals: %s", j.wid, pos+1, len(j.order), d), rec)
			}
			return
		}
		sampleMu.Lock()
		if *sampled < 3 && pos == len(j.order)-1 {
			*sampled++
			r.Sample(map[string]any{"world": j.w.Describe(), "order": j.order, "mode": mode, "questions_per_prefix": len(a), "example_question": a[len(a)/2].Q, "example_answer": a[len(a)/2].A})
		}
		sampleMu.Unlock()
	}
}

func run(r *ev.Run) {
	log.SetOutput(io.Discard)
	index.SetVerboseCorpusLogging(false)
	r.Assume("'a fresh index opened over the same persisted rows' is built over a copy of the rows in a memory KV (two handles on one leveldb/kv/sqlite file are not possible)")
	r.Assume("lookups are made at quiescent points of the out-of-order reindexer (hook); pending dependencies may still exist")
	root := ev.Scratch("c06")
	defer os.RemoveAll(root)
	jobs := make(chan job, 32)
	var wg sync.WaitGroup
	var smu sync.Mutex
	sampled := 0
	for i := 0; i < 14; i++ {
		wg.Add(1)
		go func() {
			defer wg.Done()
			for j := range jobs {
				runJob(r, j, root, &smu, &sampled)
			}
		}()
	}
	wrng := r.Rand("worlds")
	nWorlds := r.Pick(72, 240)
	nOrders := r.Pick(6, 12)
	kvKinds := []string{"memory"}
	if r.Thorough() {
		kvKinds = []string{"memory", "leveldb", "kv", "sqlite"}
	}
	for i := 0; i < nWorlds; i++ {
		wo := hw.WorldOpts{TwoSigners: i%3 == 1, Label: fmt.Sprintf("w%d", i), Dangling: i%5 == 4}
		switch i % 6 {
		case 0:
			wo.FileShape, wo.ForceDir = "nested-bytes", true
		case 2:
			wo.DeleteKinds = []string{"permanode", "claim", "delete"}
			wo.MaxClaims = 4
			wo.Permanodes = 2
		case 3:
			wo.Small = true
		case 5:
			wo.ContentTime = true
			wo.Permanodes = 2
			wo.MaxClaims = 1
			wo.NoFiles = true
		}
		w := hw.GenWorld(wrng, wo)
		w.Blobs = w.DepOrder()
		wid := fmt.Sprintf("world%d;", i)
		if !r.Only(wid) {
			continue
		}
		for f := range w.Features {
			r.Note("world_features", f)
		}
		orng := rand.New(rand.NewSource(wrng.Int63()))
		for o := 0; o < nOrders; o++ {
			order := orng.Perm(len(w.Blobs))
			if o == 0 {
				for k := range order {
					order[k] = k // dependency order
				}
			}
			every := 1
			if len(order) > 12 {
				every = 3
			}
			jobs <- job{w: w, wid: wid, order: order, corpus: o%2 == 0, kv: kvKinds[(i+o)%len(kvKinds)], prefill: o%3 == 2, every: every}
		}
	}
	close(jobs)
	wg.Wait()
	r.Require("modes", "corpus", "nocorpus")
	r.Require("moments", "with-pending-dependencies", "no-pending")
	r.Require("world_features", "delete-of-permanode", "delete-of-claim", "delete-of-delete", "directory", "nested-bytes")
}


// lightProbe asks only the time-ordering questions (cheap enough for every prefix).
func lightProbe(x *hw.Idx, w *hw.World) []hw.Answer {
	var out []hw.Answer
	x.Index.RLock()
	defer x.Index.RUnlock()
	c := x.Corpus
	var lm, cr []string
	c.EnumeratePermanodesLastModified(func(bm camtypes.BlobMeta) bool { lm = append(lm, bm.Ref.String()); return true })
	c.EnumeratePermanodesCreated(func(bm camtypes.BlobMeta) bool { cr = append(cr, bm.Ref.String()); return true }, true)
	out = append(out, hw.Answer{Q: "Corpus.EnumeratePermanodesLastModified", A: strings.Join(lm, " ")}, hw.Answer{Q: "Corpus.EnumeratePermanodesCreated", A: strings.Join(cr, " ")})
	for _, pn := range w.Permanodes {
		t, ok := c.PermanodeAnyTime(pn)
		m, ok2 := c.PermanodeModtime(pn)
		out = append(out, hw.Answer{Q: "Corpus.PermanodeAnyTime/Modtime " + pn.String(), A: fmt.Sprint(ok, t.UTC(), ok2, m.UTC())})
	}
	return out
}
