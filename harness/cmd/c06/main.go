// C06 — live index and corpus always equal what a restart would load.
package main

import (
	"context"
	"errors"
	"fmt"
	"io"
	"log"
	"math/rand"
	"os"
	"sort"
	"strings"
	"sync"

	"go4.org/jsonconfig"
	"perkeep.org/pkg/blob"
	"perkeep.org/pkg/blobserver/memory"
	"perkeep.org/pkg/index"
	"perkeep.org/pkg/sorted"
	"perkeep.org/pkg/types/camtypes"

	"verif.local/harness/ev"
	"verif.local/harness/hw"
	"verif.local/harness/inject"
	"verif.local/harness/sto"
)

type caseRec struct {
	CaseID    string         `json:"case_id"`
	Family    string         `json:"family,omitempty"`
	World     map[string]any `json:"world"`
	Blobs     []string       `json:"blobs"`
	Order     []int          `json:"order"`
	Prefix    int            `json:"prefix_len"`
	Corpus    bool           `json:"live_has_corpus"`
	KV        string         `json:"kv"`
	Prefill   bool           `json:"prefill"`
	RestartAt int            `json:"restart_before_position,omitempty"`
	Dups      map[int][]int  `json:"redeliveries,omitempty"`
	Lanes     int            `json:"concurrent_deliverers,omitempty"`
	Twice     map[int]bool   `json:"simultaneous_duplicates,omitempty"`
	Faults    map[int]string `json:"kv_faults_at_position,omitempty"`
	ForkAt    int            `json:"restarted_twin_forked_before_position,omitempty"`
	Diffs     []string       `json:"diffs,omitempty"`
}

func main() {
	ev.Main("C06", "exploration",
		"generated blob sets (as C05, plus directed ones: delete/undelete chains in every arrival order, several delete claims on ONE target with a subset of them undone in every arrival order, tied claim dates, oversized indexed values, node types, image/EXIF/media files) delivered in seeded orders with mid-history re-opens of the live index, re-deliveries, concurrent deliverers, and receives that meet a KV failure (sqlite: a statement of the batch fails, or another connection holds the write lock; other kinds: CommitBatch fails without effect; a receive that reported the error is repeated once the fault is gone, one that was acknowledged is not); at every sampled prefix (all prefixes for short histories), after the asynchronous reindexers quiesce, a grid of lookups (blob meta, deletion status, claims, attribute values at a grid of times/signers, modtimes, file/image/media/dir info, paths, edges, recent/ordered permanodes, per-type enumerations, attr search, search-handler queries) is asked of the live index(+corpus) and of a fresh index(+corpus) opened over a copy of the same rows (and, for file-backed KVs, over the closed and re-opened file); distinct = (world, order, prefix, mode); non-trivial = prefix contains at least one claim",
		run)
}

type job struct {
	family  string
	w       *hw.World
	wid     string
	order   []int
	corpus  bool
	kv      string
	prefill bool
	every   int // probe every n-th prefix (1 = all)
	// restartAt > 0: before position restartAt is delivered the live index is abandoned and a new
	// one is opened over the same KV (for file-backed KVs the file is closed and re-opened):
	// from then on the live side is "loaded from rows, then updated incrementally".
	restartAt int
	// dups[p] lists positions q <= p whose blob is delivered once more right after position p.
	dups map[int][]int
	// lanes > 1: the arrivals between two probe points are dealt to that many concurrent deliverers.
	lanes int
	// twice: positions whose blob two concurrent deliverers hand in at the same time (lanes > 1).
	twice map[int]bool
	// jitter != 0 (lanes > 1): the blob source's Fetch perturbs the schedule (seeded), which widens
	// the windows in which two deliverers are inside the indexer at once.
	jitter int64
	// search: ask the search-handler queries at the last prefix (corpus mode only).
	search bool
	// light: time-ordering probes at the prefixes that get no full probe
	light bool
	// faults[p] (lanes <= 1): the receive of position p meets that KV fault (round4.go)
	faults map[int]string
	// forkAt > 0 (lanes <= 1, no faults): before position forkAt is delivered a TWIN index(+corpus) is
	// opened over a copy of the rows persisted so far ("the server is restarted at this moment");
	// the live index is NOT restarted.  From then on both receive every arrival, and at every probe
	// point the twin must answer like the live one (round6.go).  forkDel is the delete claim the
	// planner expects to be parked on its absent target at that moment (zero: none expected).
	forkAt  int
	forkDel blob.Ref
}

// kvHandle is a sorted.KeyValue that can be closed and re-opened (file-backed kinds).
type kvHandle struct {
	kind string
	conf jsonconfig.Obj
	dir  string
	kv   sorted.KeyValue
}

func newKV(kind, dir string) (*kvHandle, error) {
	if kind == "" || kind == "memory" {
		return &kvHandle{kind: "memory", kv: sorted.NewMemoryKeyValue()}, nil
	}
	d, err := os.MkdirTemp(dir, "kv")
	if err != nil {
		return nil, err
	}
	env := &sto.Env{Dir: d}
	conf, _, err := env.KVConf(kind, "c06")
	if err != nil {
		return nil, err
	}
	h := &kvHandle{kind: kind, conf: conf, dir: d}
	if err := h.open(); err != nil {
		os.RemoveAll(d)
		return nil, err
	}
	return h, nil
}

func (h *kvHandle) open() error {
	c := jsonconfig.Obj{}
	for k, v := range h.conf {
		c[k] = v
	}
	kv, err := sorted.NewKeyValue(c)
	if err != nil {
		return err
	}
	h.kv = kv
	return nil
}

// reopen closes the file-backed KV and opens it again (a no-op for memory).
func (h *kvHandle) reopen() error {
	if h.kind == "memory" {
		return nil
	}
	if err := h.kv.Close(); err != nil {
		return fmt.Errorf("close: %w", err)
	}
	return h.open()
}

func (h *kvHandle) done() {
	if h.kind == "memory" {
		return
	}
	h.kv.Close()
	os.RemoveAll(h.dir)
}

func method(q string) string {
	if i := strings.IndexByte(q, ' '); i > 0 {
		return q[:i]
	}
	return q
}

// tiedPermanodes returns the permanodes that have two claims with exactly the same date.
func tiedPermanodes(w *hw.World) map[blob.Ref]bool {
	seen := map[string]bool{}
	out := map[blob.Ref]bool{}
	for _, c := range w.Claims {
		if c.Kind == "delete" {
			continue
		}
		k := fmt.Sprintf("%v|%d", c.PN, c.Date.UnixNano())
		if seen[k] {
			out[c.PN] = true
		}
		seen[k] = true
	}
	return out
}

func (j *job) modeNotes(r *ev.Run) {
	if j.restartAt > 0 {
		r.Note("history_modes", "mid-history-reopen")
	}
	if len(j.dups) > 0 {
		r.Note("history_modes", "re-delivery")
	}
	if j.lanes > 1 {
		r.Note("history_modes", "concurrent-deliverers")
	}
	if len(j.faults) > 0 {
		r.Note("history_modes", "kv-fault-during-a-receive")
	}
	if j.forkAt > 0 {
		r.Note("history_modes", "restarted-twin")
	}
	if j.restartAt == 0 && len(j.dups) == 0 && j.lanes <= 1 && len(j.faults) == 0 && j.forkAt == 0 {
		r.Note("history_modes", "plain")
	}
}

func runJob(r *ev.Run, j job, root string, sampleMu *sync.Mutex, sampled *int) {
	h, err := newKV(j.kv, root)
	if err != nil {
		r.Inconclusive("kv: " + err.Error())
		return
	}
	defer h.done()
	ms := &memory.Storage{}
	if j.prefill {
		sto.StoreAll(ms, j.w.Blobs)
	}
	var src hw.SrcStore = ms
	if j.jitter != 0 {
		src = &jitterSrc{Storage: ms, yield: inject.Jitter(j.jitter)}
	}
	var fc *faultCtl
	if len(j.faults) > 0 {
		if fc, err = openFaultCtl(h); err != nil {
			r.Inconclusive("kv-fault control connection: " + err.Error())
			return
		}
		defer fc.close()
	}
	live, err := hw.NewIdx(fc.wrap(h.kv), src, j.corpus)
	if err != nil {
		r.Inconclusive("index.New: " + err.Error())
		return
	}
	faulted, ackedUnderFault, failedNotRetried := false, false, false
	opts := hw.WorldProbeOpts(j.w)
	tied := tiedPermanodes(j.w)
	delivered := map[blob.Ref]int{}
	delBeforeTarget := false
	nClaims := 0
	mode := "nocorpus"
	if j.corpus {
		mode = "corpus"
	}
	rec := func(prefix int, diffs []string) caseRec {
		c := caseRec{CaseID: j.wid, Family: j.family, World: j.w.Describe(), Order: j.order, Prefix: prefix, Corpus: j.corpus, KV: j.kv, Prefill: j.prefill,
			RestartAt: j.restartAt, Dups: j.dups, Lanes: j.lanes, Twice: j.twice, Faults: j.faults, ForkAt: j.forkAt, Diffs: diffs}
		for i, bb := range j.w.Blobs {
			c.Blobs = append(c.Blobs, fmt.Sprintf("%d:%s:%s", i, j.w.Kind[bb.Ref], bb.Ref))
		}
		if len(c.Diffs) > 12 {
			c.Diffs = c.Diffs[:12]
		}
		return c
	}
	// report files every differing question under live-vs-<what>/<mode>/<method>[/<history feature>]
	report := func(what string, prefix int, diffs []string) {
		rc := rec(prefix, diffs)
		seen := map[string]bool{}
		for _, d := range diffs {
			m := method(d)
			sig := what + "/" + mode + "/" + m
			if faulted {
				// a class of its own: a receive of this history met a KV failure
				sig = what + "/after-kv-fault/" + mode + "/" + m
				if ackedUnderFault {
					sig = what + "/after-receive-acknowledged-under-kv-fault/" + mode + "/" + m
				} else if failedNotRetried {
					sig = what + "/after-receive-failed-under-kv-fault/" + mode + "/" + m
				}
			} else if delBeforeTarget {
				sig += "/delete-before-target"
			}
			// tied claim dates on one permanode: a class of its own, but only for a question that
			// is about such a permanode
			q := d
			if i := strings.Index(d, " :: "); i > 0 {
				q = d[:i]
			}
			for pn := range tied {
				if strings.Contains(q, pn.String()) {
					sig = what + "/tied-claim-dates/" + mode + "/" + m
					break
				}
			}
			if seen[sig] {
				continue
			}
			seen[sig] = true
			r.Violation(sig, fmt.Sprintf("world %s, after %d of %d arrivals: %s", j.wid, prefix, len(j.order), clip(d, 600)), rc)
		}
	}
	// betweenFailureAndRetry compares live and reloaded at the moment a receive has reported a KV
	// failure and has not been repeated yet (position p is not delivered as far as the rows go).
	betweenFailureAndRetry := func(x *hw.Idx, p int) bool {
		cp, err := hw.CopyKV(h.kv)
		if err != nil {
			return true
		}
		fresh, err := hw.NewIdx(cp, ms, j.corpus)
		if err != nil {
			r.Violation("reload-fails/"+mode, fmt.Sprintf("world %s: after the failed receive of position %d: opening a fresh index over the persisted rows failed: %v", j.wid, p, err), rec(p, nil))
			return false
		}
		a := hw.Probe(x.Index, x.Corpus, opts)
		b2 := hw.Probe(fresh.Index, fresh.Corpus, opts)
		r.Eval(len(a))
		r.Count("comparisons_between_failed_receive_and_retry", 1)
		if diffs := hw.DiffAnswers(a, b2); len(diffs) > 0 {
			failedNotRetried = true
			report("live-vs-reload", p, diffs)
			return false
		}
		return true
	}
	var twin *hw.Idx
	deliverPos := func(x *hw.Idx, p int) error {
		b := j.w.Blobs[j.order[p]]
		if twin != nil {
			// the restarted twin receives exactly what the live index receives
			if err := twin.Deliver(b); err != nil {
				return fmt.Errorf("deliver #%d %v (%s) to the twin restarted before position %d: %w", p, b.Ref, j.w.Kind[b.Ref], j.forkAt, err)
			}
			for _, q := range j.dups[p] {
				if err := twin.Deliver(j.w.Blobs[j.order[q]]); err != nil {
					return fmt.Errorf("re-deliver #%d (after #%d) to the twin restarted before position %d: %w", q, p, j.forkAt, err)
				}
			}
		}
		if kind := j.faults[p]; kind != "" && fc != nil {
			faulted = true
			acked, err := deliverUnderFault(r, &j, x, h, fc, p, kind, func() bool { return betweenFailureAndRetry(x, p) })
			if err == errStop {
				return err
			}
			if err != nil {
				return fmt.Errorf("deliver #%d: %w", p, err)
			}
			if acked {
				ackedUnderFault = true
			}
		} else if err := x.Deliver(b); err != nil {
			return fmt.Errorf("deliver #%d %v (%s): %w", p, b.Ref, j.w.Kind[b.Ref], err)
		}
		for _, q := range j.dups[p] {
			b := j.w.Blobs[j.order[q]]
			if err := x.Deliver(b); err != nil {
				return fmt.Errorf("re-deliver #%d (after #%d) %v (%s): %w", q, p, b.Ref, j.w.Kind[b.Ref], err)
			}
		}
		return nil
	}
	restarted := false
	var batch []int
	j.modeNotes(r)
	for pos := range j.order {
		batch = append(batch, pos)
		last := pos == len(j.order)-1
		probePoint := (pos+1)%j.every == 0 || last
		if j.lanes > 1 && !probePoint {
			continue
		}
		// ---- mid-history re-open
		if j.restartAt > 0 && !restarted && batch[0] >= j.restartAt {
			restarted = true
			live.Quiesce()
			if err := h.reopen(); err != nil {
				r.Inconclusive(fmt.Sprintf("world %s: re-opening the %s KV: %v", j.wid, j.kv, err))
				return
			}
			nl, err := hw.NewIdx(fc.wrap(h.kv), src, j.corpus)
			if err != nil {
				r.Violation("reload-fails/"+mode, fmt.Sprintf("world %s before position %d: re-opening the index over its own rows failed: %v", j.wid, batch[0], err), rec(batch[0], nil))
				return
			}
			live = nl
			r.Count("mid_history_reopens", 1)
			if n1, _, _ := live.Index.VerifPending(); n1 > 0 {
				r.Count("mid_history_reopens_with_pending_dependencies", 1)
			}
		}
		// ---- fork the restarted twin
		if j.forkAt > 0 && twin == nil && batch[0] == j.forkAt && j.lanes <= 1 && fc == nil {
			tw, ok := forkTwin(r, &j, live, h, ms, mode, rec)
			if !ok {
				return
			}
			twin = tw
		}
		// ---- deliver the batch
		var derr error
		if len(batch) == 1 || j.lanes <= 1 {
			for _, p := range batch {
				if derr = deliverPos(live, p); derr != nil {
					break
				}
			}
		} else {
			var wg sync.WaitGroup
			errs := make([]error, j.lanes)
			laneWork := make([][]int, j.lanes)
			for k, p := range batch {
				laneWork[k%j.lanes] = append(laneWork[k%j.lanes], p)
				if j.twice[p] {
					// the same blob from a second deliverer, at (about) the same moment
					g2 := (k + 1) % j.lanes
					laneWork[g2] = append(laneWork[g2], p)
					r.Count("simultaneous_duplicate_deliveries", 1)
				}
			}
			for g := 0; g < j.lanes; g++ {
				wg.Add(1)
				go func(g int) {
					defer wg.Done()
					for _, p := range laneWork[g] {
						if err := deliverPos(live, p); err != nil {
							errs[g] = err
							return
						}
					}
				}(g)
			}
			wg.Wait()
			for _, e := range errs {
				if e != nil {
					derr = e
				}
			}
			r.Count("concurrent_batches", 1)
		}
		if derr == errStop || errors.Is(derr, errStop) {
			return // already reported
		}
		if derr != nil {
			r.Violation("delivery-error/"+mode, fmt.Sprintf("world %s: %v", j.wid, derr), rec(pos, nil))
			return
		}
		for _, p := range batch {
			b := j.w.Blobs[j.order[p]]
			delivered[b.Ref] = p + 1
			k := j.w.Kind[b.Ref]
			if k == "claim" || k == "delete" {
				nClaims++
			}
			r.Count("redeliveries", len(j.dups[p]))
		}
		for _, p := range batch {
			b := j.w.Blobs[j.order[p]]
			if j.w.Kind[b.Ref] == "delete" {
				for _, c := range j.w.Claims {
					if c.Ref == b.Ref && (delivered[c.Target] == 0 || delivered[c.Target] > p+1) {
						delBeforeTarget = true
					}
				}
			}
		}
		batch = batch[:0]
		if !probePoint {
			// light probe at every other prefix: the time orderings of the live corpus (cached,
			// lazily sorted) against a corpus loaded from the same rows
			if j.corpus && j.light {
				live.Quiesce()
				cp, err := hw.CopyKV(h.kv)
				if err == nil {
					if fresh, err := hw.NewIdx(cp, ms, true); err == nil {
						a := lightProbe(live, j.w)
						b2 := lightProbe(fresh, j.w)
						r.Eval(len(a))
						for _, d := range hw.DiffAnswers(a, b2) {
							r.Violation("live-vs-reload/corpus/"+method(d)+"/light", fmt.Sprintf("world %s, after %d of %d arrivals: %s", j.wid, pos+1, len(j.order), d),
								rec(pos+1, []string{d}))
							break
						}
					}
				}
			}
			continue
		}
		live.Quiesce()
		// reload: a fresh index (+corpus) over a copy of the rows
		cp, err := hw.CopyKV(h.kv)
		if err != nil {
			r.Inconclusive("copy kv: " + err.Error())
			return
		}
		fresh, err := hw.NewIdx(cp, ms, j.corpus)
		if err != nil {
			r.Violation("reload-fails/"+mode, fmt.Sprintf("world %s prefix %d: opening a fresh index over the persisted rows failed: %v", j.wid, pos+1, err), rec(pos+1, nil))
			return
		}
		// To compare like with like, the reloaded side gets a corpus only when the live side has one.
		a := hw.Probe(live.Index, live.Corpus, opts)
		b2 := hw.Probe(fresh.Index, fresh.Corpus, opts)
		r.Eval(len(a))
		if nClaims > 0 {
			r.Distinct(fmt.Sprintf("%s/%v/%d/%s/%s/%d/%d/%d", j.wid, j.order, pos, mode, j.kv, j.restartAt, len(j.dups), j.lanes)+twinKey(&j))
		}
		r.Note("modes", mode)
		r.Note("kv_kinds", h.kind)
		r.Note("families", j.family)
		if last && j.corpus && h.kind == "kv" {
			// oversized rows inside a batch, on the KV with its own batch code, under a live corpus
			n := 0
			for _, c := range j.w.Claims {
				if len(c.Value) > 600 || len(c.Attr) > 600 {
					n++
				}
			}
			if n > 0 {
				r.Count("oversized_value_claims_under_live_corpus_on_kvfile", n)
				r.Note("oversized_rows", "kvfile-live-corpus")
			}
		}
		npend, _, _ := live.Index.VerifPending()
		if npend > 0 {
			r.Note("moments", "with-pending-dependencies")
		} else {
			r.Note("moments", "no-pending")
		}
		if restarted {
			r.Note("moments", "live-side-loaded-then-updated")
			if j.corpus {
				r.Note("moments", "live-corpus-loaded-then-updated")
			}
		}
		if diffs := hw.DiffAnswers(a, b2); len(diffs) > 0 {
			report("live-vs-reload", pos+1, diffs)
			return
		}
		if twin != nil {
			twin.Quiesce()
			tw := hw.Probe(twin.Index, twin.Corpus, opts)
			r.Eval(len(tw))
			r.Count("comparisons_live_vs_restarted_twin", 1)
			if diffs := hw.DiffAnswers(a, tw); len(diffs) > 0 {
				report("live-vs-restarted-twin", pos+1, diffs)
				return
			}
		}
		if last && j.corpus && j.search {
			sa := searchProbe(live, j.w, opts)
			sb := searchProbe(fresh, j.w, opts)
			r.Eval(len(sa))
			r.Count("search_handler_queries", len(sa))
			if diffs := hw.DiffAnswers(sa, sb); len(diffs) > 0 {
				report("live-vs-reload", pos+1, diffs)
				return
			}
		}
		if last && h.kind != "memory" {
			// the real thing: close the file the live index wrote and open it again
			if err := h.reopen(); err != nil {
				r.Inconclusive(fmt.Sprintf("world %s: re-opening the %s KV: %v", j.wid, j.kv, err))
				return
			}
			re, err := hw.NewIdx(h.kv, ms, j.corpus)
			if err != nil {
				r.Violation("reload-fails/"+mode, fmt.Sprintf("world %s: opening an index over the closed and re-opened %s file failed: %v", j.wid, j.kv, err), rec(pos+1, nil))
				return
			}
			b3 := hw.Probe(re.Index, re.Corpus, opts)
			r.Eval(len(b3))
			r.Count("reopened_kv_files", 1)
			r.Note("reopened_file_kinds", h.kind)
			if diffs := hw.DiffAnswers(a, b3); len(diffs) > 0 {
				report("live-vs-reopened-file", pos+1, diffs)
				return
			}
		}
		sampleMu.Lock()
		if *sampled < 3 && last {
			*sampled++
			r.Sample(map[string]any{"world": j.w.Describe(), "order": j.order, "mode": mode, "kv": j.kv, "restart_before_position": j.restartAt, "redeliveries": j.dups, "concurrent_deliverers": j.lanes,
				"questions_per_prefix": len(a), "example_question": clip(a[len(a)/2].Q, 300), "example_answer": clip(a[len(a)/2].A, 300)})
		}
		sampleMu.Unlock()
	}
}

// jitterSrc is the blob source of a history with concurrent deliverers.
type jitterSrc struct {
	*memory.Storage
	yield func(inject.Call)
}

func (d *jitterSrc) Fetch(ctx context.Context, br blob.Ref) (io.ReadCloser, uint32, error) {
	d.yield(inject.Call{})
	return d.Storage.Fetch(ctx, br)
}

func clip(s string, n int) string {
	if len(s) <= n {
		return s
	}
	return s[:n] + fmt.Sprintf("...(%d bytes)", len(s))
}

// planner feeds jobs; every choice comes from seeded generators.
type planner struct {
	r      *ev.Run
	jobs   chan job
	kinds  []string
	nextKV int
}

func (p *planner) kv() string {
	k := p.kinds[p.nextKV%len(p.kinds)]
	p.nextKV++
	return k
}

// historyMode decorates a job with one of the history modes, chosen by m.
func historyMode(j *job, m int, rng *rand.Rand) {
	n := len(j.order)
	addDups := func() {
		j.dups = map[int][]int{}
		nd := 1 + rng.Intn(3)
		for k := 0; k < nd; k++ {
			p := rng.Intn(n)
			q := rng.Intn(p + 1)
			if rng.Intn(3) == 0 {
				q = p // immediate duplicate
			}
			j.dups[p] = append(j.dups[p], q)
		}
	}
	switch m {
	case 1:
		if n > 2 {
			j.restartAt = 1 + rng.Intn(n-1)
		}
	case 2:
		addDups()
	case 3:
		j.lanes = 2 + rng.Intn(3)
		if j.every < 3 {
			j.every = 3 + rng.Intn(3)
		}
		if rng.Intn(2) == 0 {
			addDups()
		}
		j.twice = map[int]bool{}
		for k := 0; k < 2; k++ {
			j.twice[rng.Intn(n)] = true
		}
		j.jitter = 1 + rng.Int63n(1<<40)
	case 4:
		if n > 2 {
			j.restartAt = 1 + rng.Intn(n-1)
		}
		addDups()
		if rng.Intn(2) == 0 {
			j.lanes = 2 + rng.Intn(2)
			if j.every < 3 {
				j.every = 3
			}
			j.twice = map[int]bool{rng.Intn(n): true}
			j.jitter = 1 + rng.Int63n(1<<40)
		}
	}
}

// keysFirst returns order with the public-key blobs moved to the front.
func keysFirst(w *hw.World, order []int) []int {
	var keys, rest []int
	for _, bi := range order {
		if w.Kind[w.Blobs[bi].Ref] == "key" {
			keys = append(keys, bi)
		} else {
			rest = append(rest, bi)
		}
	}
	return append(keys, rest...)
}

// metaFirst returns order with every signed blob (keys, permanodes, claims, delete claims) before
// the unsigned ones (chunks, files, directories, ...), each group in its order of appearance.
func metaFirst(w *hw.World, order []int) []int {
	var meta, rest []int
	for _, bi := range order {
		switch w.Kind[w.Blobs[bi].Ref] {
		case "key", "permanode", "claim", "delete":
			meta = append(meta, bi)
		default:
			rest = append(rest, bi)
		}
	}
	return append(meta, rest...)
}

func permutations(n int) [][]int {
	var out [][]int
	a := make([]int, n)
	for i := range a {
		a[i] = i
	}
	var rec func(k int)
	rec = func(k int) {
		if k == n {
			out = append(out, append([]int(nil), a...))
			return
		}
		for i := k; i < n; i++ {
			a[k], a[i] = a[i], a[k]
			rec(k + 1)
			a[k], a[i] = a[i], a[k]
		}
	}
	rec(0)
	return out
}

func run(r *ev.Run) {
	log.SetOutput(io.Discard)
	index.SetVerboseCorpusLogging(false)
	r.Assume("'a fresh index opened over the same persisted rows' is built over a copy of the rows in a memory KV (two handles on one leveldb/kv/sqlite file are not possible); at the end of every history on a file-backed KV, and at mid-history re-opens, the file itself is closed and opened again")
	r.Assume("lookups are made at quiescent points of the out-of-order reindexer (hook); pending dependencies may still exist")
	r.Assume("answers whose order the API documents as undefined (ForeachClaim, ForeachClaimBack, EnumerateBlobMeta, EnumerateCamliBlobs, EnumeratePermanodesByNodeTypes, directory members, unsorted search results) are compared as sets")
	root := ev.Scratch("c06")
	defer os.RemoveAll(root)
	jobs := make(chan job, 32)
	var wg sync.WaitGroup
	var smu sync.Mutex
	sampled := 0
	for i := 0; i < 14; i++ {
		wg.Add(1)
		go func() {
			defer wg.Done()
			for j := range jobs {
				runJob(r, j, root, &smu, &sampled)
			}
		}()
	}
	p := &planner{r: r, jobs: jobs, kinds: []string{"memory", "leveldb", "kv", "sqlite"}}
	p.faultWorlds() // first: the sqlite histories are the slowest (fsync)
	p.genericWorlds()
	p.chainWorlds()
	p.directedWorlds()
	p.multiDeleteWorlds()
	p.lateClaimWorlds()
	close(jobs)
	wg.Wait()
	r.Require("modes", "corpus", "nocorpus")
	r.Require("moments", "with-pending-dependencies", "no-pending", "live-side-loaded-then-updated", "live-corpus-loaded-then-updated")
	r.Require("history_modes", "plain", "mid-history-reopen", "re-delivery", "concurrent-deliverers", "kv-fault-during-a-receive")
	r.Require("kv_kinds", "memory", "leveldb", "kv", "sqlite")
	r.Require("reopened_file_kinds", "leveldb", "kv", "sqlite")
	r.Require("families", "generic", "delete-chain", "long-values", "tied-dates", "node-types", "media", "content-time", "multi-delete", "kv-fault")
	r.Require("world_features", "delete-of-permanode", "delete-of-claim", "delete-of-delete", "directory", "nested-bytes",
		"delete-chain-depth-3", "delete-chain-on-permanode", "delete-chain-on-claim", "long-indexed-value", "long-path-suffix",
		"tied-claim-dates", "node-type", "media-jpg", "media-mp3", "media-png", "media-shared-wholeref")
	r.Require("chain_orders", "exhaustive-depth3-permanode", "exhaustive-depth3-claim")
	r.Require("oversized_rows", "kvfile-live-corpus")
	r.Require("world_features", "multi-delete-2", "multi-delete-3", "multi-delete-on-permanode", "multi-delete-on-claim", "multi-delete-with-edges",
		"multi-delete-undo-newest-only", "multi-delete-undo-oldest-only", "multi-delete-undo-middle-only", "multi-delete-undo-all", "multi-delete-undo-none",
		"multi-delete-undo-all-but-oldest", "multi-delete-tied-dates")
	r.Require("multi_delete_orders", "exhaustive-2-deleters-newest-undone-permanode", "exhaustive-2-deleters-oldest-undone-permanode", "exhaustive-2-deleters-newest-undone-claim")
	r.Require("kv_fault_kinds", faultTrigMeta, faultTrigHave, faultTrigAny, faultTrigDel, faultLock, faultCommit)
	r.Require("kv_fault_outcomes", "error-returned-then-retry-ok")
	r.Require("kv_fault_victim_kinds", "claim", "delete", "permanode")
	r.Require("history_modes", "restarted-twin")
	r.Require("moments", "twin-forked-between-parked-delete-claim-and-its-target", "twin-forked-with-pending-dependencies")
	r.Require("twin_parked_delete_families", "generic", "delete-chain", "multi-delete")
	r.Require("twin_parked_delete_targets", "permanode", "claim", "delete")
	r.Require("twin_modes", "corpus", "nocorpus")
	r.Require("families", "late-claims")
	r.Require("late_claim_orders", "exhaustive-set-then-valueless-del", "exhaustive-add-then-valueless-del", "older-claim-by-second-signer-keys-anywhere", "future-dated-claims", "exhaustive-future-dated-single-claim")
	r.Require("world_features", "late-claim-valueless-del", "late-claim-del-with-value", "late-claim-re-add", "future-dated-single-claim-permanode", "future-dated-multi-claim-permanode")
}

// genericWorlds: the C05 generator, seeded orders, all history modes, all KV kinds.
func (p *planner) genericWorlds() {
	r := p.r
	wrng := r.Rand("worlds")
	nWorlds := r.Pick(42, 240)
	nOrders := r.Pick(5, 12)
	for i := 0; i < nWorlds; i++ {
		wo := hw.WorldOpts{TwoSigners: i%3 == 1, Label: fmt.Sprintf("w%d", i), Dangling: i%5 == 4}
		switch i % 6 {
		case 0:
			wo.FileShape, wo.ForceDir = "nested-bytes", true
		case 2:
			wo.DeleteKinds = []string{"permanode", "claim", "delete"}
			wo.MaxClaims = 4
			wo.Permanodes = 2
		case 3:
			wo.Small = true
		case 5:
			wo.ContentTime = true
			wo.Permanodes = 2
			wo.MaxClaims = 1
			wo.NoFiles = true
		}
		w := hw.GenWorld(wrng, wo)
		w.Blobs = w.DepOrder()
		wid := fmt.Sprintf("world%d;", i)
		orng := rand.New(rand.NewSource(wrng.Int63()))
		if !r.Only(wid) {
			p.nextKV += nOrders // keep the KV rotation of a replayed case
			continue
		}
		for f := range w.Features {
			r.Note("world_features", f)
		}
		for o := 0; o < nOrders; o++ {
			order := orng.Perm(len(w.Blobs))
			if o == 0 {
				for k := range order {
					order[k] = k // dependency order
				}
			}
			every := 1
			if len(order) > 12 {
				every = 3
			}
			j := job{family: "generic", w: w, wid: wid, order: order, corpus: o%2 == 0, kv: p.kv(), prefill: o%3 == 2, every: every, light: true, search: o < 2}
			// orders 0,1 plain; then the history modes in turn (the corpus flag alternates within each mode over the worlds)
			if o >= 2 {
				historyMode(&j, 1+(o-2+i)%4, orng)
				j.corpus = (o+i)%2 == 0
			}
			// a restarted twin, forked while a delete claim is parked on its absent target (any
			// order that has such a moment, every other world) or while anything waits (order 1)
			if o >= 1 && (o+i)%2 == 1 && !twinMode(&j, o+i) && o == 1 {
				twinModeAnyPending(&j)
			}
			p.jobs <- j
		}
	}
}

// chainWorlds: delete/undelete chains on one target, delivered in EVERY arrival order (small
// worlds), so that each link is met before and after its target, and before and after the link
// that revives or kills it.
func (p *planner) chainWorlds() {
	r := p.r
	crng := r.Rand("chains")
	type spec struct {
		name      string
		depth     int
		on        string
		withClaim bool
		two       bool
		fixed     int // number of leading blobs (in dependency order) that keep their place
		sample    int // 0 = every permutation of the rest; else that many seeded permutations
		note      string
	}
	specs := []spec{
		// key first, then every order of {permanode, title claim, D1, D2, D3}: 120 histories
		{"d3pn", 3, "permanode", true, false, 1, 0, "exhaustive-depth3-permanode"},
		// key and permanode first, then every order of {claim, D1, D2, D3}: 24 histories
		{"d3cl", 3, "claim", true, false, 2, 0, "exhaustive-depth3-claim"},
		// depth 4 on the bare permanode, a seeded sample of the 120 orders
		{"d4pn", 4, "permanode", false, true, 2, r.Pick(24, 0), "depth4-permanode"},
	}
	if r.Thorough() {
		specs = append(specs,
			// the key takes part in the permutation: 720 histories
			spec{"d3pnk", 3, "permanode", true, false, 0, 0, "exhaustive-depth3-permanode-key-anywhere"},
			spec{"d4cl", 4, "claim", true, false, 2, 0, "exhaustive-depth4-claim"},
			spec{"d5pn", 5, "permanode", false, false, 1, 240, "depth5-permanode"},
		)
	}
	for si, sp := range specs {
		w := hw.DeleteChainWorld(crng, fmt.Sprintf("c%d", si), sp.depth, sp.on, sp.withClaim, sp.two)
		w.Blobs = w.DepOrder()
		wid := fmt.Sprintf("chain-%s;", sp.name)
		orng := rand.New(rand.NewSource(crng.Int63()))
		n := len(w.Blobs)
		var perms [][]int
		if sp.sample == 0 {
			perms = permutations(n - sp.fixed)
		} else {
			for k := 0; k < sp.sample; k++ {
				perms = append(perms, orng.Perm(n-sp.fixed))
			}
		}
		if !r.Only(wid) {
			p.nextKV += len(perms) / 8 // keep the KV rotation of a replayed case
			continue
		}
		for f := range w.Features {
			r.Note("world_features", f)
		}
		for pi, pm := range perms {
			order := make([]int, 0, n)
			for k := 0; k < sp.fixed; k++ {
				order = append(order, k)
			}
			for _, x := range pm {
				order = append(order, sp.fixed+x)
			}
			j := job{family: "delete-chain", w: w, wid: wid, order: order, corpus: pi%2 == 0, kv: "memory", every: 1, light: false}
			if pi%8 == 7 {
				j.kv = p.kv()
			}
			// a slice of the orders also with a mid-history re-open / re-deliveries
			if pi%5 == 4 {
				historyMode(&j, 1+(pi/5)%2, orng)
			}
			// two orders in three: a restarted twin forked while one of the links is parked
			if pi%3 != 0 {
				twinMode(&j, pi/3)
			}
			p.jobs <- j
		}
		r.Note("chain_orders", sp.note)
		r.Count("chain_histories", len(perms))
	}
}

// directedWorlds: generated worlds extended with the C06 patterns.
func (p *planner) directedWorlds() {
	r := p.r
	drng := r.Rand("directed")
	type fam struct {
		name   string
		n      int
		orders int
		extra  hw.C06Extra
		kinds  []string // KV kinds in turn (nil = all in turn)
		opts   func(i int) hw.WorldOpts
	}
	plain := func(i int) hw.WorldOpts {
		return hw.WorldOpts{TwoSigners: i%2 == 1, Permanodes: 1 + i%3, MaxClaims: 3, NoFiles: true, Deletes: i % 3}
	}
	fams := []fam{
		// oversized indexed values: mostly on the kvfile KV ("kv"), which has its own batch code
		{"long-values", r.Pick(6, 24), r.Pick(3, 6), hw.C06Extra{LongValues: 4}, []string{"kv", "leveldb", "kv", "sqlite", "kv", "memory"}, plain},
		{"tied-dates", r.Pick(6, 30), r.Pick(4, 8), hw.C06Extra{TiedDates: true}, nil, plain},
		{"node-types", r.Pick(6, 24), r.Pick(3, 6), hw.C06Extra{NodeTypes: true}, nil, plain},
		{"media", r.Pick(6, 24), r.Pick(3, 6), hw.C06Extra{Media: true, NodeTypes: true}, nil, func(i int) hw.WorldOpts {
			return hw.WorldOpts{TwoSigners: i%3 == 2, Permanodes: 2 + i%2, MaxClaims: 2, NoFiles: i%2 == 0, ForceDir: i%2 == 1}
		}},
		// a permanode's time comes from its camliContent file and crosses another permanode's time
		{"content-time", r.Pick(6, 24), r.Pick(5, 10), hw.C06Extra{}, []string{"memory"}, func(i int) hw.WorldOpts {
			return hw.WorldOpts{ContentTime: true, Permanodes: 2 + i%2, MaxClaims: i % 2, NoFiles: true}
		}},
	}
	for _, f := range fams {
		for i := 0; i < f.n; i++ {
			wo := f.opts(i)
			wo.Label = fmt.Sprintf("%s%d", f.name, i)
			w := hw.GenWorld(drng, wo)
			hw.ExtendC06(w, drng, f.extra)
			w.Blobs = w.DepOrder()
			wid := fmt.Sprintf("%s%d;", f.name, i)
			orng := rand.New(rand.NewSource(drng.Int63()))
			if !r.Only(wid) {
				if f.kinds == nil {
					p.nextKV += f.orders // keep the KV rotation of a replayed case
				}
				continue
			}
			for ft := range w.Features {
				r.Note("world_features", ft)
			}
			for o := 0; o < f.orders; o++ {
				order := orng.Perm(len(w.Blobs))
				if o == 0 {
					for k := range order {
						order[k] = k
					}
				}
				every := 1
				if len(order) > 10 {
					every = 3
				}
				if len(order) > 20 {
					every = 5
				}
				kv := ""
				if f.kinds != nil {
					kv = f.kinds[(i*f.orders+o)%len(f.kinds)]
				} else {
					kv = p.kv()
				}
				j := job{family: f.name, w: w, wid: wid, order: order, corpus: (o+i)%3 != 2, kv: kv, prefill: o%4 == 3, every: every, light: false, search: true}
				plainOnly := false
				switch {
				case f.name == "content-time" && o%3 == 2:
					// metadata synced before data: every signed blob, then files, chunks, directories
					j.order, plainOnly = metaFirst(w, order), true
					r.Note("order_shapes", "metadata-before-data")
				case f.name == "content-time" && o%3 == 0, f.name == "media" && o == 1:
					j.order = keysFirst(w, order) // otherwise most histories are "everything waits for the key"
					r.Note("order_shapes", "keys-first")
				case f.name == "media" && o == 2:
					j.order = metaFirst(w, order)
					r.Note("order_shapes", "metadata-before-data")
				}
				if f.name == "content-time" {
					// the window between a claim and the file it points at is one arrival wide
					j.every, j.light, j.corpus = 1, true, o%4 != 3 || plainOnly
				}
				if o >= 2 && !plainOnly {
					historyMode(&j, 1+(o+i)%4, orng)
				}
				if o >= 1 && f.name != "content-time" {
					twinMode(&j, o+i)
				}
				p.jobs <- j
			}
		}
	}
}

// lightProbe asks only the time-ordering questions (cheap enough for every prefix).
func lightProbe(x *hw.Idx, w *hw.World) []hw.Answer {
	var out []hw.Answer
	x.Index.RLock()
	defer x.Index.RUnlock()
	c := x.Corpus
	var lm, cr []string
	c.EnumeratePermanodesLastModified(func(bm camtypes.BlobMeta) bool { lm = append(lm, bm.Ref.String()); return true })
	c.EnumeratePermanodesCreated(func(bm camtypes.BlobMeta) bool { cr = append(cr, bm.Ref.String()); return true }, true)
	out = append(out, hw.Answer{Q: "Corpus.EnumeratePermanodesLastModified", A: strings.Join(lm, " ")}, hw.Answer{Q: "Corpus.EnumeratePermanodesCreated", A: strings.Join(cr, " ")})
	for _, pn := range w.Permanodes {
		t, ok := c.PermanodeAnyTime(pn)
		m, ok2 := c.PermanodeModtime(pn)
		out = append(out, hw.Answer{Q: "Corpus.PermanodeAnyTime/Modtime " + pn.String(), A: fmt.Sprint(ok, t.UTC(), ok2, m.UTC())})
	}
	return out
}

var _ = sort.Strings
