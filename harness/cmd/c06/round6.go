package main

// Round-6 additions of C06:
//
//   - restarted twin (a history mode, job.forkAt): at a chosen moment of a history a second
//     index(+corpus) is opened over a copy of the rows persisted so far -- the server as it would be
//     had it been restarted at that moment -- while the live one keeps running.  Both receive every
//     later arrival; at every probe point the twin must answer like the live index ("restarting the
//     server never changes the result of any lookup").  The comparison of the live index with a
//     fresh index over ITS OWN rows cannot see a restart that loses out-of-order bookkeeping: the
//     restarted index never writes the rows the lost bookkeeping would have led to, so it agrees
//     with its own rows.  The planner puts the fork exactly between a delete claim that is parked
//     (received, signature verified, target absent) and the arrival of its target, in every family
//     that has such orders; on a slice of the generic histories it forks while any other blob waits
//     for a dependency.
//
//   - late-claims family: one attribute of one permanode with an older add/set and a newer
//     (value-less) del-attribute, delivered in EVERY arrival order (the older claim is merged after
//     the deletion when it arrives late or waits for its signer's key); plus permanodes whose only
//     claim / several claims are dated in the 22nd century (a lookup "as of now" by a corpus that
//     folds claims instead of using its cached attribute maps drops them).

import (
	"fmt"
	"math/rand"
	"strings"

	"perkeep.org/pkg/blob"
	"perkeep.org/pkg/blobserver/memory"

	"verif.local/harness/ev"
	"verif.local/harness/hw"
)

type twinWindow struct {
	from, to int // the twin may be forked before any position in [from, to]
	del      blob.Ref
}

// parkedDeleteWindows lists, for every delete claim of the world that arrives before its target,
// the positions before which the claim is parked: it and its signer's key have arrived, the target
// (or the key the target needs) has not.
func parkedDeleteWindows(w *hw.World, order []int) []twinWindow {
	pos := map[blob.Ref]int{}
	for p, bi := range order {
		pos[w.Blobs[bi].Ref] = p
	}
	var out []twinWindow
	for _, c := range w.Claims {
		if c.Kind != "delete" || c.Signer < 1 || c.Signer > len(w.Signers) {
			continue
		}
		pd, ok1 := pos[c.Ref]
		pt, ok2 := pos[c.Target]
		pk, ok3 := pos[w.Signers[c.Signer-1].PubRef]
		if !ok1 || !ok2 || !ok3 || (w.Bad != nil && (w.Bad[c.Ref] || w.Bad[c.Target])) {
			continue
		}
		from := pd
		if pk > from {
			from = pk
		}
		from++
		to := pt
		for _, d := range w.Deps[c.Target] {
			if w.Kind[d] == "key" {
				if p, ok := pos[d]; ok && p > to {
					to = p
				}
			}
		}
		if from <= to && to < len(order) {
			out = append(out, twinWindow{from, to, c.Ref})
		}
	}
	return out
}

// twinMode gives the job a restarted twin forked while a delete claim is parked, when its order
// has such a moment; pick selects the window and its edge (first / last position).
func twinMode(j *job, pick int) bool {
	if j.lanes > 1 || len(j.faults) > 0 || j.forkAt > 0 {
		return false
	}
	wins := parkedDeleteWindows(j.w, j.order)
	if len(wins) == 0 {
		return false
	}
	wn := wins[pick%len(wins)]
	j.forkAt, j.forkDel = wn.from, wn.del
	if (pick/len(wins))%2 == 1 {
		j.forkAt = wn.to
	}
	return true
}

// twinModeAnyPending forks the twin right after the first arrival that has to wait for a
// dependency (a claim before its key, a file before a chunk, ...).
func twinModeAnyPending(j *job) bool {
	if j.lanes > 1 || len(j.faults) > 0 || j.forkAt > 0 {
		return false
	}
	ready := map[int]bool{}
	for _, p := range readyPositions(j.w, j.order) {
		ready[p] = true
	}
	for p := 0; p+1 < len(j.order); p++ {
		if !ready[p] {
			j.forkAt = p + 1
			return true
		}
	}
	return false
}

func twinKey(j *job) string {
	if j.forkAt == 0 {
		return ""
	}
	return fmt.Sprintf("/twin%d", j.forkAt)
}

// forkTwin opens the twin over a copy of the rows the live index has persisted so far.
func forkTwin(r *ev.Run, j *job, live *hw.Idx, h *kvHandle, ms *memory.Storage, mode string, rec func(int, []string) caseRec) (*hw.Idx, bool) {
	live.Quiesce()
	cp, err := hw.CopyKV(h.kv)
	if err != nil {
		r.Inconclusive("copy kv: " + err.Error())
		return nil, false
	}
	tw, err := hw.NewIdx(cp, ms, j.corpus)
	if err != nil {
		r.Violation("reload-fails/"+mode, fmt.Sprintf("world %s before position %d: opening a second index over the persisted rows failed: %v", j.wid, j.forkAt, err), rec(j.forkAt, nil))
		return nil, false
	}
	r.Count("restarted_twins", 1)
	r.Note("twin_families", j.family)
	r.Note("twin_kv_kinds", h.kind)
	r.Note("twin_modes", mode)
	if n, _, _ := live.Index.VerifPending(); n > 0 {
		r.Note("moments", "twin-forked-with-pending-dependencies")
		r.Count("restarted_twins_forked_with_pending_dependencies", 1)
	}
	if j.forkDel.Valid() {
		// is the delete claim really parked on its absent target right now? (evidence only)
		var tgt blob.Ref
		for _, c := range j.w.Claims {
			if c.Ref == j.forkDel {
				tgt = c.Target
			}
		}
		hv, herr := h.kv.Get("have:" + j.forkDel.String())
		_, merr := h.kv.Get("meta:" + tgt.String())
		if herr == nil && !strings.HasSuffix(hv, "|indexed") && merr != nil {
			r.Note("moments", "twin-forked-between-parked-delete-claim-and-its-target")
			r.Count("restarted_twins_forked_between_parked_delete_claim_and_its_target", 1)
			r.Note("twin_parked_delete_families", j.family)
			r.Note("twin_parked_delete_targets", j.w.Kind[tgt])
		}
	}
	return tw, true
}

// ------------------------------------------------------------------ late-claims

func (p *planner) lateClaimWorlds() {
	r := p.r
	lrng := r.Rand("late-claims")
	type spec struct {
		name   string
		lc     hw.LateClaimSpec
		fixed  int // leading blobs (dependency order) that keep their place
		sample int // 0 = every permutation of the rest
		allKV  bool
		note   string
	}
	q := r.Pick
	specs := []spec{
		// key first, then every order of {permanode, older set, del, other}: 24 histories each
		{"set", hw.LateClaimSpec{Kind: hw.Set, Extra: 1}, 1, 0, false, "exhaustive-set-then-valueless-del"},
		{"add", hw.LateClaimSpec{Kind: hw.Add, Extra: 1}, 1, 0, false, "exhaustive-add-then-valueless-del"},
		// the keys take part: {key1, key2, permanode, older add by signer 2, del by signer 1}: 120 orders
		{"two", hw.LateClaimSpec{Kind: hw.Add, TwoSigners: true}, 0, q(40, 0), false, "older-claim-by-second-signer-keys-anywhere"},
		// controls: a del-attribute that names the value; a re-add after the deletion
		{"delval", hw.LateClaimSpec{Kind: hw.Add, DelWithValue: true, Extra: 1}, 1, q(12, 0), false, "del-with-value"},
		{"readd", hw.LateClaimSpec{Kind: hw.Set, ReAdd: true}, 1, 0, false, "exhaustive-re-add-after-valueless-del"},
		// claims dated in the 22nd century, on every KV kind
		{"future", hw.LateClaimSpec{Kind: hw.Set, Future: 2}, 1, q(16, 96), true, "future-dated-claims"},
		{"future1", hw.LateClaimSpec{Kind: hw.Add, Future: 1}, 2, 0, true, "exhaustive-future-dated-single-claim"},
	}
	if r.Thorough() {
		specs = append(specs,
			spec{"set3", hw.LateClaimSpec{Kind: hw.Set, Extra: 2, ReAdd: true}, 1, 240, false, "set-del-readd-with-others"},
			spec{"two-set", hw.LateClaimSpec{Kind: hw.Set, TwoSigners: true, Extra: 1}, 0, 240, false, "older-set-by-second-signer-keys-anywhere"},
		)
	}
	for si, sp := range specs {
		w := hw.LateClaimWorld(lrng, fmt.Sprintf("l%d", si), sp.lc)
		w.Blobs = w.DepOrder()
		wid := fmt.Sprintf("lateclaim-%s;", sp.name)
		orng := rand.New(rand.NewSource(lrng.Int63()))
		if !r.Only(wid) {
			continue
		}
		for f := range w.Features {
			r.Note("world_features", f)
		}
		n := len(w.Blobs)
		var perms [][]int
		if sp.sample == 0 {
			perms = permutations(n - sp.fixed)
		} else {
			id := make([]int, n-sp.fixed)
			for k := range id {
				id[k] = k
			}
			perms = append(perms, id)
			for k := 1; k < sp.sample; k++ {
				perms = append(perms, orng.Perm(n-sp.fixed))
			}
		}
		for pi, pm := range perms {
			order := make([]int, 0, n)
			for k := 0; k < sp.fixed; k++ {
				order = append(order, k)
			}
			for _, x := range pm {
				order = append(order, sp.fixed+x)
			}
			// the corpus is the subject: two histories in three have one
			j := job{family: "late-claims", w: w, wid: wid, order: order, corpus: pi%3 != 2, kv: "memory", every: 1, search: pi == 0}
			if sp.allKV && pi%2 == 1 || pi%8 == 7 {
				j.kv = p.kinds[(si+pi/2)%len(p.kinds)] // a function of the case alone (replay)
			}
			switch {
			case pi%6 == 5:
				historyMode(&j, 1+(pi/6)%2, orng)
			case pi%6 == 2:
				if twinModeAnyPending(&j) {
					r.Count("twins_planned_while_any_blob_waits", 1)
				}
			}
			p.jobs <- j
		}
		r.Note("late_claim_orders", sp.note)
		r.Count("late_claim_histories", len(perms))
	}
}
