package main

// Round-4 families of C06:
//
//   - multi-delete: ONE target with several delete claims of different dates, a subset of which is
//     undone (only the newest, only the oldest, the middle one, all, all but one ...), delivered in
//     every arrival order (small worlds) or a seeded sample of orders.  The running index adds every
//     deletion to its cache as it arrives; a re-opened index rebuilds the cache from the
//     "deleted|" rows: both must keep ALL deleters of a target.
//
//   - kv-fault: a SQL-backed live index (sqlite file) meets a real statement failure inside the
//     batch of one arrival: a trigger installed in the database file by a second connection
//     raises ABORT for one row key of that blob, or a second connection holds the database's write
//     lock while the blob is received; for the other KV kinds the live index writes through the
//     harness's pass-through wrapper, whose CommitBatch fails once without applying anything.
//     The fault lasts for that one receive.  If ReceiveBlob
//     acknowledged the blob (nil) the live index/corpus must still answer like an index re-opened
//     over the rows; if it returned the error, the harness hands the blob in again once the fault
//     is gone (as a client or the sync queue would) and compares then.

import (
	"context"
	"database/sql"
	"errors"
	"fmt"
	"math/rand"
	"strings"

	"perkeep.org/pkg/blob"
	"perkeep.org/pkg/sorted"

	"verif.local/harness/ev"
	"verif.local/harness/hw"
	"verif.local/harness/inject"
)

// ------------------------------------------------------------------ multi-delete

func (p *planner) multiDeleteWorlds() {
	r := p.r
	mrng := r.Rand("multi-delete")
	type spec struct {
		name   string
		md     hw.MultiDeleteSpec
		fixed  int // leading blobs (dependency order) that keep their place
		sample int // 0 = every permutation of the rest
		allKV  bool
		note   string
	}
	q := r.Pick
	specs := []spec{
		// key first, then every order of {permanode, title, D-old, D-new, undo(D-new)}: 120 histories
		{"md2new-pn", hw.MultiDeleteSpec{On: "permanode", Deleters: 2, Undo: []int{1}}, 1, 0, false, "exhaustive-2-deleters-newest-undone-permanode"},
		// key and permanode first, then every order of {title, D-old, D-new, undo(D-old)}: 24 histories
		{"md2old-pn", hw.MultiDeleteSpec{On: "permanode", Deleters: 2, Undo: []int{0}}, 2, 0, false, "exhaustive-2-deleters-oldest-undone-permanode"},
		{"md2new-cl", hw.MultiDeleteSpec{On: "claim", Deleters: 2, Undo: []int{1}}, 2, 0, false, "exhaustive-2-deleters-newest-undone-claim"},
		{"md2old-cl", hw.MultiDeleteSpec{On: "claim", Deleters: 2, Undo: []int{0}}, 2, q(12, 0), false, "2-deleters-oldest-undone-claim"},
		{"md2all-pn", hw.MultiDeleteSpec{On: "permanode", Deleters: 2, Undo: []int{0, 1}}, 2, q(16, 0), false, "2-deleters-both-undone"},
		{"md2none-pn", hw.MultiDeleteSpec{On: "permanode", Deleters: 2, TwoSigners: true}, 3, 0, false, "2-deleters-none-undone-two-signers"},
		// three deleters: every interesting subset, a seeded sample of the orders (all in thorough)
		{"md3new-pn", hw.MultiDeleteSpec{On: "permanode", Deleters: 3, Undo: []int{2}}, 2, q(16, 0), false, "3-deleters-newest-undone"},
		{"md3old-pn", hw.MultiDeleteSpec{On: "permanode", Deleters: 3, Undo: []int{0}}, 2, q(12, 0), false, "3-deleters-oldest-undone"},
		{"md3mid-cl", hw.MultiDeleteSpec{On: "claim", Deleters: 3, Undo: []int{1}}, 2, q(12, 0), false, "3-deleters-middle-undone"},
		{"md3two-pn", hw.MultiDeleteSpec{On: "permanode", Deleters: 3, Undo: []int{1, 2}, TwoSigners: true}, 3, q(16, 240), true, "3-deleters-two-newest-undone"},
		{"md3oldnew-pn", hw.MultiDeleteSpec{On: "permanode", Deleters: 3, Undo: []int{0, 2}}, 2, q(12, 240), false, "3-deleters-oldest-and-newest-undone"},
		{"md3all-cl", hw.MultiDeleteSpec{On: "claim", Deleters: 3, Undo: []int{0, 1, 2}}, 2, q(12, 240), false, "3-deleters-all-undone"},
		// tied deleter dates (two signers), newest pair member undone
		{"md2tie-pn", hw.MultiDeleteSpec{On: "permanode", Deleters: 2, Undo: []int{1}, TwoSigners: true, Tie: true}, 3, q(12, 0), false, "2-deleters-tied-dates"},
		// with path/member edges onto the target, every KV kind
		{"md2new-edges", hw.MultiDeleteSpec{On: "permanode", Deleters: 2, Undo: []int{1}, Edges: true}, 1, q(16, 120), true, "2-deleters-newest-undone-with-edges"},
		{"md3new-edges", hw.MultiDeleteSpec{On: "permanode", Deleters: 3, Undo: []int{2, 0}, Edges: true, TwoSigners: true}, 2, q(12, 120), true, "3-deleters-with-edges"},
	}
	if r.Thorough() {
		specs = append(specs,
			// the key takes part in the permutation: 720 histories
			spec{"md2new-pnk", hw.MultiDeleteSpec{On: "permanode", Deleters: 2, Undo: []int{1}}, 0, 0, false, "exhaustive-2-deleters-newest-undone-key-anywhere"},
			spec{"md2old-pnk", hw.MultiDeleteSpec{On: "permanode", Deleters: 2, Undo: []int{0}}, 1, 0, false, "exhaustive-2-deleters-oldest-undone-permanode-anywhere"},
		)
	}
	for si, sp := range specs {
		w := hw.MultiDeleteWorld(mrng, fmt.Sprintf("m%d", si), sp.md)
		w.Blobs = w.DepOrder()
		wid := fmt.Sprintf("multidel-%s;", sp.name)
		orng := rand.New(rand.NewSource(mrng.Int63()))
		if !r.Only(wid) {
			continue
		}
		for f := range w.Features {
			r.Note("world_features", f)
		}
		n := len(w.Blobs)
		var perms [][]int
		if sp.sample == 0 {
			perms = permutations(n - sp.fixed)
		} else {
			// the dependency order first, then seeded ones
			id := make([]int, n-sp.fixed)
			for k := range id {
				id[k] = k
			}
			perms = append(perms, id)
			for k := 1; k < sp.sample; k++ {
				perms = append(perms, orng.Perm(n-sp.fixed))
			}
		}
		for pi, pm := range perms {
			order := make([]int, 0, n)
			for k := 0; k < sp.fixed; k++ {
				order = append(order, k)
			}
			for _, x := range pm {
				order = append(order, sp.fixed+x)
			}
			j := job{family: "multi-delete", w: w, wid: wid, order: order, corpus: pi%2 == 0, kv: "memory", every: 1}
			if sp.allKV && pi%2 == 1 || pi%8 == 7 {
				j.kv = p.kinds[(si+pi/2)%len(p.kinds)] // a function of the case alone (replay)
			}
			// a slice of the orders also with a mid-history re-open / re-deliveries
			if pi%6 == 5 {
				historyMode(&j, 1+(pi/6)%2, orng)
			}
			// two orders in three: a restarted twin forked while one of the deleters is parked
			if pi%3 != 1 {
				twinMode(&j, pi/3)
			}
			p.jobs <- j
		}
		r.Note("multi_delete_orders", sp.note)
		r.Count("multi_delete_histories", len(perms))
	}
	// generated worlds (paths, members, files, two signers) with a multi-deleted target
	nGen := r.Pick(8, 40)
	nOrders := r.Pick(3, 6)
	for i := 0; i < nGen; i++ {
		wo := hw.WorldOpts{TwoSigners: i%2 == 1, Permanodes: 2 + i%2, MaxClaims: 4, NoFiles: i%4 != 3, Deletes: i % 2, Label: fmt.Sprintf("mdgen%d", i)}
		w := hw.GenWorld(mrng, wo)
		hw.ExtendMultiDelete(w, mrng)
		w.Blobs = w.DepOrder()
		wid := fmt.Sprintf("multidel-gen%d;", i)
		orng := rand.New(rand.NewSource(mrng.Int63()))
		if !r.Only(wid) {
			continue
		}
		for f := range w.Features {
			r.Note("world_features", f)
		}
		for o := 0; o < nOrders; o++ {
			order := orng.Perm(len(w.Blobs))
			if o == 0 {
				for k := range order {
					order[k] = k
				}
			} else if o%2 == 1 {
				order = keysFirst(w, order)
			}
			every := 1
			if len(order) > 12 {
				every = 2
			}
			j := job{family: "multi-delete", w: w, wid: wid, order: order, corpus: (o+i)%2 == 0, kv: p.kinds[(i+o)%len(p.kinds)], every: every, search: o == 0}
			if o >= 2 {
				historyMode(&j, 1+(o+i)%4, orng)
			}
			if o >= 1 {
				twinMode(&j, o+i)
			}
			p.jobs <- j
		}
		r.Count("multi_delete_generated_worlds", 1)
	}
}

// ------------------------------------------------------------------ kv-fault

// Fault kinds (the value of job.faults[position]).
const (
	faultTrigMeta = "statement-fails/meta-row"    // the blob's own "meta:<ref>" row
	faultTrigHave = "statement-fails/have-row"    // the blob's own "have:<ref>" row
	faultTrigAny  = "statement-fails/any-row"     // the first row of the batch whose key names the blob
	faultTrigDel  = "statement-fails/deleted-row" // the "deleted|<target>|..." row of a delete claim
	faultLock     = "write-lock-held-by-another-connection"
	// any KV kind, behind the harness's pass-through wrapper: the CommitBatch of that receive
	// returns an error and applies nothing (what every sorted.KeyValue promises of a failed commit)
	faultCommit = "commit-batch-fails"
)

const faultMsg = "verif: injected statement failure"

// errStop: the history ends here, the violation has been reported.
var errStop = errors.New("c06: stop this history")

// faultCtl is a second connection to the sqlite file the live index writes; for the other KV
// kinds, the fault plan of the pass-through wrapper the live index writes through.
type faultCtl struct {
	db   *sql.DB
	conn *sql.Conn // holds the write lock while a faultLock is active
	plan *inject.Plan
}

// wrap returns the KV the live index must be opened over.
func (f *faultCtl) wrap(kv sorted.KeyValue) sorted.KeyValue {
	if f == nil || f.plan == nil {
		return kv
	}
	return inject.WrapKV("c06-live", kv, f.plan)
}

func openFaultCtl(h *kvHandle) (*faultCtl, error) {
	file, _ := h.conf["file"].(string)
	if h.kind != "sqlite" {
		pl := inject.NewPlan()
		pl.Match = func(layer, op string) bool { return op == "CommitBatch" }
		return &faultCtl{plan: pl}, nil
	}
	if file == "" {
		return nil, fmt.Errorf("no sqlite file in the KV config")
	}
	db, err := sql.Open("sqlite", file) // the driver is registered by perkeep's sqlite package
	if err != nil {
		return nil, err
	}
	return &faultCtl{db: db}, nil
}

func sqlQuote(s string) string { return "'" + strings.ReplaceAll(s, "'", "''") + "'" }

// install arms the fault for the receive of blob br (whose delete target, if any, is tgt).
func (f *faultCtl) install(kind string, br, tgt blob.Ref) error {
	var when string
	if (kind == faultCommit) != (f.plan != nil) {
		return fmt.Errorf("fault kind %q does not fit this KV", kind)
	}
	switch kind {
	case faultCommit:
		f.plan.FaultAt(f.plan.Calls(), inject.Error) // the next CommitBatch
		return nil
	case faultTrigMeta:
		when = "NEW.k = " + sqlQuote("meta:"+br.String())
	case faultTrigHave:
		when = "NEW.k = " + sqlQuote("have:"+br.String())
	case faultTrigAny:
		when = "instr(NEW.k, " + sqlQuote(br.String()) + ") > 0"
	case faultTrigDel:
		when = "substr(NEW.k, 1, " + fmt.Sprint(len("deleted|"+tgt.String()+"|")) + ") = " + sqlQuote("deleted|"+tgt.String()+"|")
	case faultLock:
		c, err := f.db.Conn(context.Background())
		if err != nil {
			return err
		}
		if _, err := c.ExecContext(context.Background(), "BEGIN IMMEDIATE"); err != nil {
			c.Close()
			return err
		}
		f.conn = c
		return nil
	default:
		return fmt.Errorf("unknown fault kind %q", kind)
	}
	_, err := f.db.Exec("CREATE TRIGGER verif_c06_poison BEFORE INSERT ON rows WHEN " + when + " BEGIN SELECT RAISE(ABORT, '" + faultMsg + "'); END")
	return err
}

// remove disarms the fault.
func (f *faultCtl) remove(kind string) error {
	if kind == faultCommit {
		f.plan.ClearFaults()
		return nil
	}
	if kind == faultLock {
		if f.conn == nil {
			return nil
		}
		_, err := f.conn.ExecContext(context.Background(), "ROLLBACK")
		f.conn.Close()
		f.conn = nil
		return err
	}
	_, err := f.db.Exec("DROP TRIGGER IF EXISTS verif_c06_poison")
	return err
}

func (f *faultCtl) close() {
	if f == nil {
		return
	}
	if f.conn != nil {
		f.remove(faultLock)
	}
	if f.db != nil {
		f.db.Close()
	}
}

func isInjected(err error) bool {
	if err == nil {
		return false
	}
	s := err.Error()
	return errors.Is(err, inject.ErrInjected) || strings.Contains(s, faultMsg) || strings.Contains(s, "SQLITE_BUSY") || strings.Contains(s, "database is locked") || strings.Contains(s, "database table is locked")
}

// deliverUnderFault hands the blob at position p to the live index while the fault is armed,
// disarms it, and -- when the index reported the failure -- hands the blob in again.
// acked reports that the receive under the fault returned nil.
func deliverUnderFault(r *ev.Run, j *job, x *hw.Idx, h *kvHandle, fc *faultCtl, p int, kind string, beforeRetry func() bool) (acked bool, err error) {
	b := j.w.Blobs[j.order[p]]
	var tgt blob.Ref
	for _, c := range j.w.Claims {
		if c.Ref == b.Ref {
			tgt = c.Target
		}
	}
	// nothing of an earlier arrival may still be on its way to the KV when the fault is armed
	x.Quiesce()
	if err := fc.install(kind, b.Ref, tgt); err != nil {
		r.Inconclusive(fmt.Sprintf("world %s: the harness could not arm the KV fault %s: %v", j.wid, kind, err))
		return false, errStop
	}
	derr := x.Deliver(b)
	if err := fc.remove(kind); err != nil {
		r.Inconclusive(fmt.Sprintf("world %s: the harness could not disarm the KV fault %s: %v", j.wid, kind, err))
		return false, errStop
	}
	x.Quiesce()
	r.Count("kv_faults_armed", 1)
	r.Note("kv_fault_kinds", kind)
	r.Note("kv_fault_victim_kinds", j.w.Kind[b.Ref])
	switch {
	case derr == nil:
		// acknowledged: either the fault was not met (the blob only waits for a dependency, or the
		// poisoned row is not one of its rows) or the failure was swallowed
		hv, herr := h.kv.Get("have:" + b.Ref.String())
		if herr == nil && strings.HasSuffix(hv, "|indexed") {
			r.Count("kv_faults_not_met", 1)
			r.Note("kv_fault_outcomes", "not-met(blob-indexed)")
		} else if n, _, _ := x.Index.VerifPending(); n > 0 && herr != nil {
			r.Note("kv_fault_outcomes", "acknowledged-without-have-row(pending-or-lost)")
		} else {
			r.Note("kv_fault_outcomes", "acknowledged-without-have-row")
		}
		r.Count("kv_fault_receives_acknowledged", 1)
		return true, nil
	default:
		// any error is an honest answer while the KV fails (a blob waiting for a dependency reports
		// the missing dependency when its "missing|" row cannot be written)
		if isInjected(derr) {
			r.Count("kv_fault_receives_failed_with_the_injected_error", 1)
		} else {
			r.Count("kv_fault_receives_failed_with_another_error", 1)
		}
		r.Note("kv_fault_outcomes", "error-returned")
		// "at any point": also now, when the receive has failed and nothing of it may be visible
		if beforeRetry != nil && !beforeRetry() {
			return false, errStop
		}
		// the fault is gone: the sender tries again
		if err := x.Deliver(b); err != nil {
			return false, fmt.Errorf("receive of %v (%s) failed under %s (%v) and the retry after the fault was removed failed too: %w", b.Ref, j.w.Kind[b.Ref], kind, derr, err)
		}
		r.Count("kv_fault_retries_succeeded", 1)
		r.Note("kv_fault_outcomes", "error-returned-then-retry-ok")
		return false, nil
	}
}

// readyPositions returns the positions of order whose blob, when it arrives, has all of its
// (transitive) dependencies already delivered: its rows are written by its own receive.
func readyPositions(w *hw.World, order []int) []int {
	inWorld := map[blob.Ref]bool{}
	for _, b := range w.Blobs {
		inWorld[b.Ref] = true
	}
	ready := map[blob.Ref]bool{}
	var out []int
	for p, bi := range order {
		ref := w.Blobs[bi].Ref
		ok := true
		for _, d := range w.Deps[ref] {
			if !inWorld[d] || !ready[d] {
				ok = false
			}
		}
		if w.Bad != nil && w.Bad[ref] {
			ok = false
		}
		if ok {
			ready[ref] = true
			out = append(out, p)
		}
	}
	return out
}

// pickFaults chooses up to n victims of order and a fault kind for each.
func pickFaults(w *hw.World, order []int, rng *rand.Rand, n int, preferDeletes bool, kv string) map[int]string {
	ready := readyPositions(w, order)
	if len(ready) == 0 {
		return nil
	}
	out := map[int]string{}
	var dels []int
	for _, p := range ready {
		if w.Kind[w.Blobs[order[p]].Ref] == "delete" {
			dels = append(dels, p)
		}
	}
	for k := 0; k < n; k++ {
		p := ready[rng.Intn(len(ready))]
		if len(dels) > 0 && (preferDeletes || rng.Intn(3) == 0) {
			p = dels[rng.Intn(len(dels))]
		}
		kinds := []string{faultTrigMeta, faultTrigHave, faultTrigAny, faultLock, faultTrigMeta, faultLock}
		if w.Kind[w.Blobs[order[p]].Ref] == "delete" {
			kinds = append(kinds, faultTrigDel, faultTrigDel)
		}
		out[p] = kinds[rng.Intn(len(kinds))]
		if kv != "sqlite" {
			out[p] = faultCommit
		}
	}
	if kv != "sqlite" {
		return out
	}
	// one victim that is NOT ready (write lock only: its "missing|" rows are plain Sets)
	if rng.Intn(3) == 0 {
		isReady := map[int]bool{}
		for _, p := range ready {
			isReady[p] = true
		}
		for p := range order {
			if !isReady[p] && out[p] == "" {
				out[p] = faultLock
				break
			}
		}
	}
	return out
}

func (p *planner) faultWorlds() {
	r := p.r
	frng := r.Rand("kv-faults")
	wi := 0
	emit := func(w *hw.World, wid string, orders int, orng *rand.Rand) {
		wi++
		if !r.Only(wid) {
			return
		}
		for f := range w.Features {
			r.Note("world_features", f)
		}
		for o := 0; o < orders; o++ {
			order := orng.Perm(len(w.Blobs))
			switch {
			case o == 0:
				for k := range order {
					order[k] = k
				}
			case o%2 == 1:
				order = keysFirst(w, order)
			}
			corpus := o%3 != 2
			j := job{family: "kv-fault", w: w, wid: wid, order: order, corpus: corpus, kv: "sqlite", every: 1, search: o == 0}
			if o%4 == 1 {
				j.kv = []string{"memory", "leveldb", "kv"}[(wi+o/4)%3] // a function of the case alone (replay)
			}
			j.faults = pickFaults(w, order, orng, 1+orng.Intn(3), !corpus, j.kv)
			if len(j.faults) == 0 {
				continue
			}
			if o%4 == 3 {
				// also across a re-open of the database file
				j.restartAt = 1 + orng.Intn(len(order)-1)
			}
			p.jobs <- j
		}
	}
	// small directed worlds: chains and multi-deletes (deletes cache + corpus deletes)
	nSmall := r.Pick(4, 12)
	for i := 0; i < nSmall; i++ {
		var w *hw.World
		if i%2 == 0 {
			w = hw.DeleteChainWorld(frng, fmt.Sprintf("f%d", i), 2+i%2, []string{"permanode", "claim"}[(i/2)%2], true, false)
		} else {
			w = hw.MultiDeleteWorld(frng, fmt.Sprintf("f%d", i), hw.MultiDeleteSpec{On: []string{"permanode", "claim"}[(i/2)%2], Deleters: 2, Undo: []int{1 - (i/4)%2}, Edges: i%4 == 3})
		}
		w.Blobs = w.DepOrder()
		emit(w, fmt.Sprintf("kvfault-small%d;", i), r.Pick(4, 8), rand.New(rand.NewSource(frng.Int63())))
	}
	// generated worlds (files, directories, paths, two signers)
	nGen := r.Pick(8, 40)
	for i := 0; i < nGen; i++ {
		wo := hw.WorldOpts{TwoSigners: i%3 == 1, Permanodes: 1 + i%3, MaxClaims: 4, NoFiles: i%2 == 0, ForceDir: i%4 == 1, Deletes: 1 + i%3, Label: fmt.Sprintf("kvfault%d", i)}
		if i%4 == 2 {
			wo.DeleteKinds = []string{"permanode", "claim", "delete"}
		}
		w := hw.GenWorld(frng, wo)
		if i%3 == 0 {
			hw.ExtendMultiDelete(w, frng)
		}
		w.Blobs = w.DepOrder()
		emit(w, fmt.Sprintf("kvfault-gen%d;", i), r.Pick(3, 6), rand.New(rand.NewSource(frng.Int63())))
	}
}
