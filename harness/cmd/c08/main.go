// C08 — a search returns exactly the matching blobs, however it is planned (see package sw).
package main

import "verif.local/harness/sw"

func main() { sw.MainC08R7() }
