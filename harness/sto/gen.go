package sto

import (
	"bytes"
	"context"
	"crypto/sha1"
	"crypto/sha256"
	"encoding/hex"
	"fmt"
	"math/rand"

	"perkeep.org/pkg/blob"
	"perkeep.org/pkg/blobserver/memory"
	"perkeep.org/pkg/schema"
)

// RefOf computes the ref of data under the named hash, independently of pkg/blob's constructors.
func RefOf(hashName string, data []byte) blob.Ref {
	var s string
	switch hashName {
	case "sha1":
		h := sha1.Sum(data)
		s = "sha1-" + hex.EncodeToString(h[:])
	case "sha256":
		h := sha256.Sum256(data)
		s = "sha256-" + hex.EncodeToString(h[:])
	default:
		h := sha256.Sum224(data)
		s = "sha224-" + hex.EncodeToString(h[:])
	}
	return blob.MustParse(s)
}

// GenOpts tunes a universe.
type GenOpts struct {
	N          int
	MaxSize    int  // upper bound for "large" members (default 64 KiB+1)
	Hashes     bool // mix sha1 / sha256 refs in
	OnlySHA224 bool
}

// Universe returns n distinct blobs of mixed sizes and kinds, determined by rng.
func Universe(rng *rand.Rand, o GenOpts) []Blob {
	if o.N == 0 {
		o.N = 16
	}
	if o.MaxSize == 0 {
		o.MaxSize = 64<<10 + 1
	}
	sizes := []int{0, 1, 2, 3, 17, 64, 255, 256, 4095, 4096, 4097, o.MaxSize - 2, o.MaxSize - 1, o.MaxSize}
	seen := map[blob.Ref]bool{}
	var out []Blob
	for i := 0; len(out) < o.N; i++ {
		var data []byte
		switch k := rng.Intn(10); {
		case k < 5:
			n := sizes[rng.Intn(len(sizes))]
			if i >= len(sizes) && rng.Intn(2) == 0 {
				n = rng.Intn(300)
			}
			if i < len(sizes) {
				n = sizes[i]
			}
			data = make([]byte, n)
			rng.Read(data)
		case k < 6:
			data = make([]byte, rng.Intn(2000)) // zeros
		case k < 8:
			// valid schema JSON (the cond storage and the index route on this)
			data = []byte(fmt.Sprintf("{\"camliVersion\": 1,\n  \"camliType\": \"bytes\",\n  \"parts\": [],\n  \"verifNonce\": %d\n}", rng.Int63()))
		case k < 9:
			// almost-schema JSON
			data = []byte(fmt.Sprintf("{\"camliVersion\": 1, \"camliTypo\": \"x\", \"n\": %d", rng.Int63()))
		default:
			data = []byte(fmt.Sprintf("text blob %d", rng.Int63()))
		}
		h := "sha224"
		if o.Hashes && !o.OnlySHA224 {
			h = []string{"sha224", "sha224", "sha224", "sha1", "sha256"}[rng.Intn(5)]
		}
		ref := RefOf(h, data)
		if seen[ref] {
			continue
		}
		seen[ref] = true
		out = append(out, Blob{Ref: ref, Data: data})
	}
	return out
}

// FromBytes returns the sha224 blob of data.
func FromBytes(data []byte) Blob { return Blob{Ref: RefOf("sha224", data), Data: data} }

// FileBlobs writes a file of the given content with perkeep's own file writer into a
// scratch memory store and returns the file schema ref plus every blob written
// (chunks first, file schema blob last).
func FileBlobs(name string, content []byte) (fileRef blob.Ref, blobs []Blob, err error) {
	ms := &memory.Storage{}
	fileRef, err = schema.WriteFileFromReader(context.Background(), ms, name, bytes.NewReader(content))
	if err != nil {
		return
	}
	var last Blob
	for _, s := range ms.BlobrefStrings() {
		br := blob.MustParse(s)
		c, _ := ms.BlobContents(br)
		b := Blob{Ref: br, Data: []byte(c)}
		if br == fileRef {
			last = b
			continue
		}
		blobs = append(blobs, b)
	}
	blobs = append(blobs, last)
	return
}

// SchemaCap is schema.MaxSchemaBlobSize: blobs above it are never schema blobs, and code that
// sniffs a blob for its type (cond's isSchema rule, the index) buffers at most SchemaCap+1 bytes.
const SchemaCap = schema.MaxSchemaBlobSize

// BigBlob returns a blob of exactly size bytes.  kind "random" = random bytes; "json" = a blob that
// starts like a valid schema blob (camliVersion/camliType first) and is padded inside a string
// member, so a sniffer has to read on to learn that it is too large to be one; "zeros".
// Hash function as in Universe (name "" = sha224).
func BigBlob(rng *rand.Rand, size int, kind, hashName string) Blob {
	data := make([]byte, size)
	switch kind {
	case "json":
		head := fmt.Sprintf("{\"camliVersion\": 1,\n  \"camliType\": \"bytes\",\n  \"verifNonce\": %d,\n  \"pad\": \"", rng.Int63())
		tail := "\"\n}"
		if size < len(head)+len(tail) {
			rng.Read(data)
			break
		}
		for i := range data {
			data[i] = 'a' + byte(i%23)
		}
		copy(data, head)
		copy(data[size-len(tail):], tail)
	case "zeros":
	default:
		rng.Read(data)
	}
	return Blob{Ref: RefOf(hashName, data), Data: data}
}
