package sto

import (
	"encoding/json"
	"fmt"
	"math/rand"
	"strings"

	"perkeep.org/pkg/blob"
)

// Crafted "file" schema blobs: valid schema JSON, written by hand (not by perkeep's file writer),
// whose parts do NOT cover their blobs the way every perkeep client writes them.  doc/schema
// allows a part to name any blob with any size/offset; a store that interprets file schemas on
// receive (blobpacked packs a file of >= 512 KiB into a zip) still has to serve every blob involved
// byte-for-byte with its true size whatever it decides to do with the file.

// CraftedPart is one entry of a "parts" array.  Neither ref set = a sparse (zero) part.
type CraftedPart struct {
	BlobRef  blob.Ref
	BytesRef blob.Ref
	Size     int64
	Offset   int64
}

// CraftedFile is one generated file: Blobs in delivery order (data chunks, inner "bytes" schema
// blobs, the "file" schema blob last).
type CraftedFile struct {
	Variant   string
	Name      string
	Blobs     []Blob
	File      Blob  // == Blobs[len(Blobs)-1]
	PartsSize int64 // sum of the top-level part sizes (what blobpacked compares with its pack threshold)
}

// PackThreshold is blobpacked's packThreshold: files whose parts sum up to at least this are packed on receive.
const PackThreshold = 512 << 10

// CraftedVariants lists the variant names NewCraftedFile understands, in a fixed order.
func CraftedVariants() []string {
	return []string{
		"prefix-first",        // [A:k, B]            part 1 uses a prefix of A (part size < blob size, no offset)
		"full-then-prefix",    // [A, B, A:k]         the same chunk with two part sizes, the short one last
		"prefix-middle",       // [A, B:k, C]
		"two-prefixes",        // [A:k1, B, A:k2]     the same chunk with two different short part sizes
		"nested-bytes-prefix", // [bytes{A:k, B}, C]  the short part sits in a "bytes" schema below the file
		"prefix-of-shared",    // [S:k, A, B]         S is a blob the history uses elsewhere too (caller-supplied)
		"prefix-last",         // [A, B, C:k]
		"prefix-then-full",    // [A:k, B, A]         two part sizes, the full one last
		"prefix-all",          // every part is a prefix of its blob
		"repeat-full",         // [A, B, A]           ordinary repeated chunk (control: legal and packable)
		"over-claim",          // [A:n+x, B]          part size larger than the blob
		"offset-part",         // [A@o:n-o, B]        a part with an offset (control: "complicated schema")
		"sparse-part",         // [A, hole, B:k]      a part without any ref
		"nested-outer-prefix", // [bytes{A, B}:k, C]  the part naming the bytes tree is shorter than the tree
	}
}

// CraftedRepeatVariants lists the variants of NewCraftedFile in which one data blob is named by
// several parts WITH THE SAME (full) size and other chunks follow the repeat: files with repeated
// content (runs of equal bytes, copies).  Perkeep's own writer produces such files whenever two
// chunks of a file have equal content; they are legal, packable, and every chunk of them stays an
// ordinary blob of the map.  (A separate list: CraftedVariants() is rotated by index elsewhere.)
func CraftedRepeatVariants() []string {
	return []string{
		"repeat-then-more", // [A, B, A, C]
		"repeat-adjacent",  // [A, A, B, C]
		"repeat-run",       // [Z, Z, Z.., D, Z, E]  a short chunk (a run of zeros or random bytes) many times
		"repeat-two",       // [A, B, A, B, C]       two chunks repeated
		"repeat-nested",    // [bytes{A, B, A, C}, D] the repeat sits in a "bytes" schema below the file
	}
}

// schemaJSON renders a schema blob of the given camliType ("file" or "bytes").
func schemaJSON(camliType, name string, nonce int64, parts []CraftedPart) []byte {
	var sb strings.Builder
	sb.WriteString("{\"camliVersion\": 1,\n  \"camliType\": \"" + camliType + "\",\n")
	if camliType == "file" {
		q, _ := json.Marshal(name)
		fmt.Fprintf(&sb, "  \"fileName\": %s,\n", q)
	}
	sb.WriteString("  \"parts\": [")
	for i, p := range parts {
		if i > 0 {
			sb.WriteString(",")
		}
		sb.WriteString("\n    {")
		switch {
		case p.BlobRef.Valid():
			fmt.Fprintf(&sb, "\"blobRef\": %q, ", p.BlobRef.String())
		case p.BytesRef.Valid():
			fmt.Fprintf(&sb, "\"bytesRef\": %q, ", p.BytesRef.String())
		}
		if p.Offset != 0 {
			fmt.Fprintf(&sb, "\"offset\": %d, ", p.Offset)
		}
		fmt.Fprintf(&sb, "\"size\": %d}", p.Size)
	}
	fmt.Fprintf(&sb, "\n  ],\n  \"verifNonce\": %d\n}", nonce)
	return []byte(sb.String())
}

// NewCraftedFile generates one crafted file of the given variant.  shared is used by the variant
// "prefix-of-shared" only (a blob of at least 2 bytes that the caller also uses elsewhere; it is put
// first in Blobs so that it is certainly delivered before the file blob); with a nil shared that
// variant falls back to a chunk of its own.  The top-level parts always sum up to >= PackThreshold.
func NewCraftedFile(rng *rand.Rand, variant string, shared *Blob) (CraftedFile, error) {
	cf := CraftedFile{Variant: variant, Name: fmt.Sprintf("crafted-%s-%d.bin", variant, rng.Int63())}
	hashes := []string{"", "", "", "sha1", "sha256"}
	var chunks []Blob
	chunk := func() Blob {
		d := make([]byte, 150<<10+rng.Intn(250<<10))
		rng.Read(d)
		b := Blob{Ref: RefOf(hashes[rng.Intn(len(hashes))], d), Data: d}
		chunks = append(chunks, b)
		return b
	}
	// small is a chunk of 48-144 KiB (the repeat variants use more chunks per file)
	small := func() Blob {
		d := make([]byte, 48<<10+rng.Intn(96<<10))
		rng.Read(d)
		b := Blob{Ref: RefOf(hashes[rng.Intn(len(hashes))], d), Data: d}
		chunks = append(chunks, b)
		return b
	}
	// a strict prefix length of an n-byte blob (n >= 2): the edges 0, 1, n-1 and seeded inner values
	prefix := func(n int) int64 {
		switch rng.Intn(8) {
		case 0:
			return 1
		case 1:
			return int64(n - 1)
		case 2:
			return 0
		case 3:
			return int64(n / 2)
		}
		return int64(1 + rng.Intn(n-1))
	}
	full := func(b Blob) CraftedPart { return CraftedPart{BlobRef: b.Ref, Size: int64(len(b.Data))} }
	pre := func(b Blob) CraftedPart { return CraftedPart{BlobRef: b.Ref, Size: prefix(len(b.Data))} }
	var parts []CraftedPart
	var inner []Blob // "bytes" schema blobs
	bytesOf := func(ps []CraftedPart) (Blob, int64) {
		var sum int64
		for _, p := range ps {
			sum += p.Size
		}
		b := FromBytes(schemaJSON("bytes", "", rng.Int63(), ps))
		inner = append(inner, b)
		return b, sum
	}
	switch variant {
	case "prefix-first":
		a, b := chunk(), chunk()
		parts = []CraftedPart{pre(a), full(b)}
	case "prefix-middle":
		a, b, c := chunk(), chunk(), chunk()
		parts = []CraftedPart{full(a), pre(b), full(c)}
	case "prefix-last":
		a, b, c := chunk(), chunk(), chunk()
		parts = []CraftedPart{full(a), full(b), pre(c)}
	case "prefix-all":
		for i := 0; i < 4; i++ {
			parts = append(parts, pre(chunk()))
		}
	case "full-then-prefix":
		a, b := chunk(), chunk()
		parts = []CraftedPart{full(a), full(b), pre(a)}
	case "prefix-then-full":
		a, b := chunk(), chunk()
		parts = []CraftedPart{pre(a), full(b), full(a)}
	case "two-prefixes":
		a, b := chunk(), chunk()
		p1, p2 := pre(a), pre(a)
		for p2.Size == p1.Size {
			p2 = pre(a)
		}
		parts = []CraftedPart{p1, full(b), p2}
	case "repeat-full":
		a, b := chunk(), chunk()
		parts = []CraftedPart{full(a), full(b), full(a)}
	case "repeat-then-more":
		a, b, c := small(), small(), small()
		parts = []CraftedPart{full(a), full(b), full(a), full(c)}
	case "repeat-adjacent":
		a, b, c := small(), small(), small()
		parts = []CraftedPart{full(a), full(a), full(b), full(c)}
	case "repeat-run":
		zd := make([]byte, 4<<10+rng.Intn(28<<10))
		if rng.Intn(2) == 0 {
			rng.Read(zd)
		}
		z := Blob{Ref: RefOf(hashes[rng.Intn(len(hashes))], zd), Data: zd}
		chunks = append(chunks, z)
		for i, n := 0, 2+rng.Intn(5); i < n; i++ {
			parts = append(parts, full(z))
		}
		parts = append(parts, full(small()), full(z), full(small()))
	case "repeat-two":
		a, b, c := small(), small(), small()
		parts = []CraftedPart{full(a), full(b), full(a), full(b), full(c)}
	case "repeat-nested":
		a, b, c, d := small(), small(), small(), small()
		x, sum := bytesOf([]CraftedPart{full(a), full(b), full(a), full(c)})
		parts = []CraftedPart{{BytesRef: x.Ref, Size: sum}, full(d)}
	case "over-claim":
		a, b := chunk(), chunk()
		p := full(a)
		p.Size += int64(1 + rng.Intn(100<<10))
		parts = []CraftedPart{p, full(b)}
	case "offset-part":
		a, b := chunk(), chunk()
		o := int64(1 + rng.Intn(len(a.Data)/2))
		parts = []CraftedPart{{BlobRef: a.Ref, Offset: o, Size: int64(len(a.Data)) - o}, full(b)}
	case "sparse-part":
		a, b := chunk(), chunk()
		parts = []CraftedPart{full(a), {Size: int64(1 + rng.Intn(64<<10))}, pre(b)}
	case "nested-bytes-prefix":
		a, b, c := chunk(), chunk(), chunk()
		x, sum := bytesOf([]CraftedPart{pre(a), full(b)})
		parts = []CraftedPart{{BytesRef: x.Ref, Size: sum}, full(c)}
	case "nested-outer-prefix":
		a, b, c := chunk(), chunk(), chunk()
		x, sum := bytesOf([]CraftedPart{full(a), full(b)})
		parts = []CraftedPart{{BytesRef: x.Ref, Size: sum - int64(1+rng.Intn(len(b.Data)-1))}, full(c)}
	case "prefix-of-shared":
		var s Blob
		if shared != nil && len(shared.Data) >= 2 {
			s = *shared
			chunks = append(chunks, s)
		} else {
			s = chunk()
		}
		parts = []CraftedPart{pre(s), full(chunk()), full(chunk())}
	default:
		return cf, fmt.Errorf("unknown crafted file variant %q", variant)
	}
	sum := func() (n int64) {
		for _, p := range parts {
			n += p.Size
		}
		return
	}
	// blobpacked only looks at files whose parts sum up to its threshold: pad with whole chunks
	for sum() < PackThreshold+(16<<10) {
		parts = append(parts, full(chunk()))
	}
	cf.PartsSize = sum()
	cf.File = FromBytes(schemaJSON("file", cf.Name, rng.Int63(), parts))
	seen := map[blob.Ref]bool{}
	for _, b := range append(append(chunks, inner...), cf.File) {
		if !seen[b.Ref] {
			seen[b.Ref] = true
			cf.Blobs = append(cf.Blobs, b)
		}
	}
	return cf, nil
}
