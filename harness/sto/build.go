// Package sto builds every perkeep storage backend (and compositions) through
// the public constructors, and provides the reference-map oracle shared by the
// storage checks.
package sto

import (
	"context"
	"errors"
	"fmt"
	"os"
	"path/filepath"
	"sort"
	"strings"
	"sync"
	"sync/atomic"
	"time"

	"filippo.io/age"
	"go4.org/jsonconfig"
	"perkeep.org/pkg/blob"
	"perkeep.org/pkg/blobserver"
	_ "perkeep.org/pkg/blobserver/blobpacked"
	_ "perkeep.org/pkg/blobserver/cond"
	_ "perkeep.org/pkg/blobserver/diskpacked"
	_ "perkeep.org/pkg/blobserver/encrypt"
	_ "perkeep.org/pkg/blobserver/localdisk"
	"perkeep.org/pkg/blobserver/memory"
	_ "perkeep.org/pkg/blobserver/namespace"
	_ "perkeep.org/pkg/blobserver/overlay"
	_ "perkeep.org/pkg/blobserver/proxycache"
	_ "perkeep.org/pkg/blobserver/replica"
	_ "perkeep.org/pkg/blobserver/shard"
	_ "perkeep.org/pkg/blobserver/union"
	"perkeep.org/pkg/sorted"
	_ "perkeep.org/pkg/sorted/kvfile"
	_ "perkeep.org/pkg/sorted/leveldb"
	_ "perkeep.org/pkg/sorted/sqlite"

	"verif.local/harness/inject"
)

// Loader is a blobserver.Loader over harness-owned storages.
type Loader struct {
	mu  sync.Mutex
	sto map[string]blobserver.Storage
}

var _ blobserver.Loader = (*Loader)(nil)

func NewLoader() *Loader { return &Loader{sto: map[string]blobserver.Storage{}} }

func (l *Loader) Set(prefix string, s blobserver.Storage) {
	l.mu.Lock()
	l.sto[prefix] = s
	l.mu.Unlock()
}
func (l *Loader) FindHandlerByType(string) (string, any, error) {
	return "", nil, blobserver.ErrHandlerTypeNotFound
}
func (l *Loader) AllHandlers() (map[string]string, map[string]any) {
	return map[string]string{}, map[string]any{}
}
func (l *Loader) MyPrefix() string             { return "/verif/" }
func (l *Loader) BaseURL() string              { return "http://localhost:1" }
func (l *Loader) GetHandlerType(string) string { return "" }
func (l *Loader) GetHandler(prefix string) (any, error) {
	return l.GetStorage(prefix)
}
func (l *Loader) GetStorage(prefix string) (blobserver.Storage, error) {
	l.mu.Lock()
	defer l.mu.Unlock()
	if s, ok := l.sto[prefix]; ok {
		return s, nil
	}
	return nil, fmt.Errorf("verif loader: no storage at %q", prefix)
}

// Spec describes a backend tree.
type Spec struct {
	Kind string         `json:"kind"`
	P    map[string]any `json:"p,omitempty"`
	Kids []*Spec        `json:"kids,omitempty"`
}

func (s *Spec) String() string {
	var sb strings.Builder
	sb.WriteString(s.Kind)
	if len(s.P) > 0 {
		keys := make([]string, 0, len(s.P))
		for k := range s.P {
			keys = append(keys, k)
		}
		sort.Strings(keys)
		sb.WriteString("{")
		for i, k := range keys {
			if i > 0 {
				sb.WriteString(",")
			}
			fmt.Fprintf(&sb, "%s=%v", k, s.P[k])
		}
		sb.WriteString("}")
	}
	if len(s.Kids) > 0 {
		sb.WriteString("[")
		for i, k := range s.Kids {
			if i > 0 {
				sb.WriteString(",")
			}
			sb.WriteString(k.String())
		}
		sb.WriteString("]")
	}
	return sb.String()
}

func (s *Spec) str(k, def string) string {
	if v, ok := s.P[k].(string); ok {
		return v
	}
	return def
}
func (s *Spec) num(k string, def int) int {
	switch v := s.P[k].(type) {
	case int:
		return v
	case float64:
		return int(v)
	case int64:
		return int(v)
	}
	return def
}

// Caps is the capability set of a built tree.
// AcksEarly reports whether the tree contains a replica store that acknowledges a write before all
// of its replicas have it (minWritesForSuccess < number of replicas): the remaining writes finish in
// the background, so a blob may re-appear after a later remove (documented design of the replica
// store; C12 decides the quorum rule itself).
func (s *Spec) AcksEarly() bool {
	if s.Kind == "replica" {
		if m := s.num("minWrites", 0); m > 0 && m < len(s.Kids) {
			return true
		}
	}
	for _, k := range s.Kids {
		if k.AcksEarly() {
			return true
		}
	}
	return false
}

type Caps struct {
	Receive  bool // accepts ReceiveBlob
	Remove   bool // supports RemoveBlobs
	SubFetch bool
	Reopen   bool
	// RemoveMixed: some parts of the tree remove and some refuse; a remove may or may not
	// take effect, so the oracle only marks its refs uncertain.
	RemoveMixed bool
}

// Built is a constructed backend.
type Built struct {
	Spec *Spec
	S    blobserver.Storage
	Caps Caps
	// Preload stores blobs into the read-only parts that the tree itself cannot write
	// (union subsets, overlay lower).  nil when the tree has none.
	Preload func(b []Blob) error
	// Reopen closes S and constructs it again over the same durable state.
	Reopen func() (blobserver.Storage, error)
	// Leaves are the harness-owned wrappers at the bottom (when built with a Plan).
	Leaves  []*inject.Storage
	KVs     []*inject.KV
	closers []func()
	mems    []*memory.Storage // every harness-created memory store of the tree (leaves and caches)
	// Larges are the large (zip) stores of the blobpacked nodes of the tree as first built:
	// enumerating one shows whether packing really happened.
	Larges []blobserver.Storage
	// Siblings are the second namespaces created over the same master as a namespace node
	// ("sibling": "yes"); each starts holding SiblingBlobs() and nothing else.
	Siblings []blobserver.Storage
	// Hidden stores blobs where the tree must NOT show them: directly into a backend of a replica
	// node that is outside its read set ("readBackends").  Such blobs are absent for every reader
	// of the tree until they are received through it.  nil when the tree has no such place.
	Hidden func(b []Blob) error
	hidden []preloadFn
}

// kidRe is a child slot of a composite: loader prefix + how to re-create the child (nil: keep).
type kidRe struct {
	prefix string
	re     reopenFn
}

func reKids(ld *Loader, kids []kidRe) error {
	for _, k := range kids {
		if k.re == nil {
			continue
		}
		ns, err := k.re()
		if err != nil {
			return err
		}
		ld.Set(k.prefix, ns)
	}
	return nil
}

func onDisk(kvKind string) bool { return kvKind == "leveldb" || kvKind == "kv" || kvKind == "sqlite" }

// ReleaseMemory empties every memory store of the tree.  blobserver.Receive registers each
// storage it ever saw in a process-global hub map, so a finished tree stays reachable; a check
// that stores multi-MiB blobs in thousands of short-lived trees calls this when a tree is done.
// The tree must not be used afterwards.
func (b *Built) ReleaseMemory() {
	for _, m := range b.mems {
		var refs []blob.Ref
		for _, s := range m.BlobrefStrings() {
			if r, ok := blob.Parse(s); ok {
				refs = append(refs, r)
			}
		}
		m.RemoveBlobs(context.Background(), refs)
	}
	b.mems = nil
}

// Close releases everything.
func (b *Built) Close() {
	for i := len(b.closers) - 1; i >= 0; i-- {
		b.closers[i]()
	}
	b.closers = nil
}

// Env is the per-history construction environment.
type Env struct {
	Dir  string       // scratch directory for on-disk stores
	Plan *inject.Plan // when non-nil, leaves and KVs are wrapped with it
	// NestedPreload (opt-in): Built.Preload also fills the read-only parts of NESTED nodes (an
	// overlay's lower layer or a union's subsets below the root), wherever the parent shows its
	// child's content unchanged: replica without a distinct read set, cond (its read store),
	// overlay (both layers), proxycache (origin) and union.  It is not propagated through shard
	// (routing decides visibility), namespace (inventory decides), encrypt and blobpacked.
	// Without it only the root's own read-only parts are filled (the original behaviour).
	NestedPreload bool
	// DeepReopen (opt-in): Built.Reopen is also offered for composite trees.  A node is re-created
	// (Close when it has one, then CreateStorage with the same config) after its reopenable
	// children were re-created; memory children are kept (they are the "disk" of the history).
	// Nodes whose own state is a volatile memory KV (blobpacked meta, overlay deleted, namespace
	// inventory of kind memory) and namespace/encrypt over an on-disk KV (no Close method, the
	// file lock stays held) make the tree non-reopenable, as before.
	DeepReopen bool
	n          int
}

// joinPre runs every non-nil preload on the same blobs.
func joinPre(ps ...preloadFn) preloadFn {
	var live []preloadFn
	for _, p := range ps {
		if p != nil {
			live = append(live, p)
		}
	}
	if len(live) == 0 {
		return nil
	}
	return func(bl []Blob) error {
		for _, p := range live {
			if err := p(bl); err != nil {
				return err
			}
		}
		return nil
	}
}

func (e *Env) fresh(label string) string {
	e.n++
	return fmt.Sprintf("%s%d", label, e.n)
}

func (e *Env) subdir(label string) (string, error) {
	d := filepath.Join(e.Dir, e.fresh(label))
	return d, os.MkdirAll(d, 0o700)
}

// KVConf returns a metaIndex-style config of the given kind plus the harness-side handle
// (nil for on-disk kinds).  kind: memory | leveldb | kv | sqlite | verif (memory behind an inject.KV).
func (e *Env) KVConf(kind, label string) (jsonconfig.Obj, *inject.KV, error) {
	switch kind {
	case "", "memory":
		if e.Plan != nil {
			return e.KVConf("verif", label)
		}
		return jsonconfig.Obj{"type": "memory"}, nil, nil
	case "verif":
		name := e.fresh(fmt.Sprintf("kv-%s-%p-", label, e))
		kv := inject.WrapKV(label, sorted.NewMemoryKeyValue(), e.Plan)
		return inject.RegisterKV(name, kv), kv, nil
	case "leveldb":
		d, err := e.subdir("leveldb")
		return jsonconfig.Obj{"type": "leveldb", "file": d}, nil, err
	case "kv":
		d, err := e.subdir("kvfile")
		return jsonconfig.Obj{"type": "kv", "file": filepath.Join(d, "index.kv")}, nil, err
	case "sqlite":
		d, err := e.subdir("sqlite")
		return jsonconfig.Obj{"type": "sqlite", "file": filepath.Join(d, "index.sqlite")}, nil, err
	}
	return nil, nil, fmt.Errorf("unknown kv kind %q", kind)
}

func cloneConf(c jsonconfig.Obj) jsonconfig.Obj {
	out := jsonconfig.Obj{}
	for k, v := range c {
		if m, ok := v.(map[string]any); ok {
			v = map[string]any(cloneConf(m))
		} else if m, ok := v.(jsonconfig.Obj); ok {
			v = map[string]any(cloneConf(m))
		}
		out[k] = v
	}
	return out
}

// Build constructs spec.  Every non-leaf is created with blobserver.CreateStorage.
func Build(e *Env, spec *Spec) (*Built, error) {
	b := &Built{Spec: spec}
	s, caps, reopen, preload, err := b.build(e, spec)
	if err != nil {
		b.Close()
		return nil, err
	}
	b.S, b.Caps, b.Reopen, b.Preload = s, caps, nil, preload
	if h := joinPre(b.hidden...); h != nil {
		b.Hidden = h
	}
	if reopen != nil {
		b.Caps.Reopen = true
		b.Reopen = func() (blobserver.Storage, error) {
			ns, err := reopen()
			if err == nil {
				b.S = ns
			}
			return ns, err
		}
	}
	return b, nil
}

type reopenFn func() (blobserver.Storage, error)
type preloadFn func([]Blob) error

func closeSto(s blobserver.Storage) {
	if c, ok := s.(interface{ Close() error }); ok {
		c.Close()
	}
}

func (b *Built) leaf(e *Env, label string, inner blobserver.Storage) blobserver.Storage {
	if e.Plan == nil {
		return inner
	}
	w := inject.Wrap(label, inner, e.Plan)
	b.Leaves = append(b.Leaves, inject.Base(w))
	return w
}

func (b *Built) create(typ string, ld *Loader, conf jsonconfig.Obj) (blobserver.Storage, error) {
	// A re-open in this harness happens in the process of the previous incarnation.  Perkeep's sqlite
	// files are in WAL mode: the LAST connection of the closed incarnation cleans the WAL up under an
	// exclusive lock, and database/sql closes a connection that is still in use (e.g. by the enumerate
	// goroutine that MergedEnumerate leaves behind when the limit is reached) only when it is
	// returned — after Close() returned.  Opening the file meanwhile fails with SQLITE_BUSY, which a
	// restarted process cannot see.  Such an open is repeated (bounded); a lock that persists is
	// still returned as the error it is.
	var s blobserver.Storage
	var err error
	for attempt := 0; ; attempt++ {
		s, err = blobserver.CreateStorage(typ, ld, cloneConf(conf))
		if err == nil || attempt >= 400 || !strings.Contains(err.Error(), "SQLITE_BUSY") {
			break
		}
		BusyOpenRetries.Add(1)
		time.Sleep(25 * time.Millisecond)
	}
	if err != nil {
		return nil, fmt.Errorf("CreateStorage(%s): %w", typ, err)
	}
	return s, nil
}

// BusyOpenRetries counts opens repeated because the previous in-process incarnation's last sqlite
// connection was still closing (see create).
var BusyOpenRetries atomic.Int64

func (b *Built) build(e *Env, sp *Spec) (blobserver.Storage, Caps, reopenFn, preloadFn, error) {
	full := Caps{Receive: true, Remove: true}
	switch sp.Kind {
	case "memory":
		m := &memory.Storage{}
		b.mems = append(b.mems, m)
		return b.leaf(e, "memory", m), Caps{Receive: true, Remove: true, SubFetch: true}, nil, nil, nil

	case "localdisk":
		d, err := e.subdir("localdisk")
		if err != nil {
			return nil, full, nil, nil, err
		}
		conf := jsonconfig.Obj{"path": d}
		s, err := b.create("filesystem", NewLoader(), conf)
		if err != nil {
			return nil, full, nil, nil, err
		}
		re := func() (blobserver.Storage, error) { return b.create("filesystem", NewLoader(), conf) }
		return s, Caps{Receive: true, Remove: true, SubFetch: true}, re, nil, nil

	case "diskpacked":
		d, err := e.subdir("diskpacked")
		if err != nil {
			return nil, full, nil, nil, err
		}
		kvc, kv, err := e.KVConf(sp.str("meta", "memory"), "diskpacked-index")
		if err != nil {
			return nil, full, nil, nil, err
		}
		if kv != nil {
			b.KVs = append(b.KVs, kv)
		}
		conf := jsonconfig.Obj{"path": d, "metaIndex": map[string]any(kvc)}
		if n := sp.num("maxFileSize", 0); n > 0 {
			conf["maxFileSize"] = float64(n)
		}
		cur, err := b.create("diskpacked", NewLoader(), conf)
		if err != nil {
			return nil, full, nil, nil, err
		}
		holder := &cur
		b.closers = append(b.closers, func() { closeSto(*holder) })
		var re reopenFn
		if k := sp.str("meta", "memory"); k != "memory" || kv != nil {
			// a plain memory metaIndex does not survive Close; every other kind does
			re = func() (blobserver.Storage, error) {
				closeSto(*holder)
				ns, err := b.create("diskpacked", NewLoader(), conf)
				if err == nil {
					*holder = ns
				}
				return ns, err
			}
		}
		return cur, Caps{Receive: true, Remove: true, SubFetch: true}, re, nil, nil

	case "blobpacked":
		ld := NewLoader()
		kids := sp.Kids
		if len(kids) == 0 {
			kids = []*Spec{{Kind: "memory"}, {Kind: "memory"}}
		}
		small, sc, smallRe, _, err := b.build(e, kids[0])
		if err != nil {
			return nil, full, nil, nil, err
		}
		large, lc, largeRe, _, err := b.build(e, kids[1])
		if err != nil {
			return nil, full, nil, nil, err
		}
		b.Larges = append(b.Larges, large)
		if !lc.SubFetch {
			return nil, full, nil, nil, errors.New("blobpacked large store needs SubFetch")
		}
		ld.Set("/small/", small)
		ld.Set("/large/", large)
		kvc, kv, err := e.KVConf(sp.str("meta", "memory"), "blobpacked-meta")
		if err != nil {
			return nil, full, nil, nil, err
		}
		if kv != nil {
			b.KVs = append(b.KVs, kv)
		}
		conf := jsonconfig.Obj{"smallBlobs": "/small/", "largeBlobs": "/large/", "metaIndex": map[string]any(kvc), "keepGoing": true}
		s, err := b.create("blobpacked", ld, conf)
		if err != nil {
			return nil, full, nil, nil, err
		}
		holder := &s
		b.closers = append(b.closers, func() { closeSto(*holder) })
		// loose blobs are removed from small; packed ones are only marked in meta
		bpCaps := Caps{Receive: true, Remove: sc.Remove, SubFetch: true, RemoveMixed: sc.RemoveMixed || !sc.Remove}
		var re reopenFn
		if e.DeepReopen && onDisk(sp.str("meta", "memory")) {
			re = func() (blobserver.Storage, error) {
				closeSto(*holder)
				if err := reKids(ld, []kidRe{{"/small/", smallRe}, {"/large/", largeRe}}); err != nil {
					return nil, err
				}
				ns, err := b.create("blobpacked", ld, conf)
				if err == nil {
					*holder = ns
				}
				return ns, err
			}
		}
		return s, bpCaps, re, nil, nil

	case "encrypt":
		ld := NewLoader()
		kids := sp.Kids
		if len(kids) == 0 {
			kids = []*Spec{{Kind: "memory"}, {Kind: "memory"}}
		}
		blobs, _, blobsRe, _, err := b.build(e, kids[0])
		if err != nil {
			return nil, full, nil, nil, err
		}
		meta, _, metaRe, _, err := b.build(e, kids[1])
		if err != nil {
			return nil, full, nil, nil, err
		}
		ld.Set("/enc-blobs/", blobs)
		ld.Set("/enc-meta/", meta)
		kf, err := WriteAgeKey(e)
		if err != nil {
			return nil, full, nil, nil, err
		}
		kvc, kv, err := e.KVConf(sp.str("meta", "memory"), "encrypt-index")
		if err != nil {
			return nil, full, nil, nil, err
		}
		if kv != nil {
			b.KVs = append(b.KVs, kv)
		}
		conf := jsonconfig.Obj{
			"I_AGREE": "that encryption support hasn't been peer-reviewed, isn't finished, and its format might change.",
			"keyFile": kf, "blobs": "/enc-blobs/", "meta": "/enc-meta/", "metaIndex": map[string]any(kvc),
		}
		s, err := b.create("encrypt", ld, conf)
		if err != nil {
			return nil, full, nil, nil, err
		}
		// re-creating over the same lower stores with a fresh memory index = "meta index lost"
		var re reopenFn
		if sp.str("meta", "memory") == "memory" {
			re = func() (blobserver.Storage, error) {
				if e.DeepReopen {
					if err := reKids(ld, []kidRe{{"/enc-blobs/", blobsRe}, {"/enc-meta/", metaRe}}); err != nil {
						return nil, err
					}
				}
				c2 := cloneConf(conf)
				if kv == nil {
					c2["metaIndex"] = map[string]any{"type": "memory"}
				}
				return b.create("encrypt", ld, c2)
			}
		}
		return s, Caps{Receive: true, Remove: false}, re, nil, nil

	case "replica", "shard":
		ld := NewLoader()
		var prefixes []any
		caps := Caps{Receive: true}
		anyRemove, allRemove := false, true
		var kidPre []preloadFn
		var kidsRe []kidRe
		for i, k := range sp.Kids {
			ks, kc, kre, kp, err := b.build(e, k)
			if err != nil {
				return nil, full, nil, nil, err
			}
			kidPre = append(kidPre, kp)
			kidsRe = append(kidsRe, kidRe{fmt.Sprintf("/k%d/", i), kre})
			if kc.Remove {
				anyRemove = true
			} else {
				allRemove = false
			}
			if kc.RemoveMixed {
				caps.RemoveMixed = true
			}
			p := fmt.Sprintf("/k%d/", i)
			ld.Set(p, ks)
			prefixes = append(prefixes, p)
		}
		caps.Remove = allRemove
		if anyRemove && !allRemove {
			caps.RemoveMixed = true
		}
		conf := jsonconfig.Obj{"backends": prefixes}
		if sp.Kind == "replica" {
			if n := sp.num("minWrites", 0); n > 0 {
				conf["minWritesForSuccess"] = float64(n)
			}
			if n := sp.num("readFirst", 0); n > 0 && n <= len(prefixes) {
				// distinct read set: the first n backends (every backend holds every blob when minWrites = all)
				conf["readBackends"] = prefixes[:n]
				if n < len(prefixes) {
					last, _ := ld.GetStorage(prefixes[len(prefixes)-1].(string))
					b.hidden = append(b.hidden, func(bl []Blob) error { return storeAll(last, bl) })
				}
			}
		}
		s, err := b.create(sp.Kind, ld, conf)
		var pre preloadFn
		if e.NestedPreload && sp.Kind == "replica" && sp.num("readFirst", 0) == 0 {
			pre = joinPre(kidPre...)
		}
		var re reopenFn
		if e.DeepReopen {
			re = func() (blobserver.Storage, error) {
				if err := reKids(ld, kidsRe); err != nil {
					return nil, err
				}
				return b.create(sp.Kind, ld, conf)
			}
		}
		return s, caps, re, pre, err

	case "cond":
		// write: isSchema -> replica[bs, extra], else bs; read bs; remove bs
		ld := NewLoader()
		kids := sp.Kids
		if len(kids) == 0 {
			kids = []*Spec{{Kind: "memory"}, {Kind: "memory"}}
		}
		bs, bc, bsRe, bsPre, err := b.build(e, kids[0])
		if err != nil {
			return nil, full, nil, nil, err
		}
		if !e.NestedPreload {
			bsPre = nil
		}
		extra, _, extraRe, _, err := b.build(e, kids[1])
		if err != nil {
			return nil, full, nil, nil, err
		}
		ld.Set("/bs/", bs)
		ld.Set("/extra/", extra)
		rep, err := b.create("replica", ld, jsonconfig.Obj{"backends": []any{"/bs/", "/extra/"}})
		if err != nil {
			return nil, full, nil, nil, err
		}
		ld.Set("/rep/", rep)
		conf := jsonconfig.Obj{
			"write": map[string]any{"if": "isSchema", "then": "/rep/", "else": "/bs/"},
			"read":  "/bs/",
		}
		// both write targets include bs: when bs is read-only (union) every receive is refused, and a
		// schema blob that reached only the extra store is not readable (reads go to bs)
		caps := Caps{Receive: bc.Receive, Remove: false, SubFetch: false}
		if sp.str("remove", "yes") == "yes" {
			conf["remove"] = "/bs/"
			caps.Remove = bc.Remove
			caps.RemoveMixed = bc.RemoveMixed
		}
		s, err := b.create("cond", ld, conf)
		var re reopenFn
		if e.DeepReopen {
			re = func() (blobserver.Storage, error) {
				if err := reKids(ld, []kidRe{{"/bs/", bsRe}, {"/extra/", extraRe}}); err != nil {
					return nil, err
				}
				rep, err := b.create("replica", ld, jsonconfig.Obj{"backends": []any{"/bs/", "/extra/"}})
				if err != nil {
					return nil, err
				}
				ld.Set("/rep/", rep)
				return b.create("cond", ld, conf)
			}
		}
		return s, caps, re, bsPre, err

	case "overlay":
		ld := NewLoader()
		kids := sp.Kids
		if len(kids) == 0 {
			kids = []*Spec{{Kind: "memory"}, {Kind: "memory"}}
		}
		lower, lc, lowerRe, lowerPre, err := b.build(e, kids[0])
		if err != nil {
			return nil, full, nil, nil, err
		}
		upper, uc, upperRe, upperPre, err := b.build(e, kids[1])
		if err != nil {
			return nil, full, nil, nil, err
		}
		ld.Set("/lower/", lower)
		ld.Set("/upper/", upper)
		kvc, kv, err := e.KVConf(sp.str("deleted", "memory"), "overlay-deleted")
		if err != nil {
			return nil, full, nil, nil, err
		}
		if kv != nil {
			b.KVs = append(b.KVs, kv)
		}
		conf := jsonconfig.Obj{"lower": "/lower/", "upper": "/upper/", "deleted": map[string]any(kvc)}
		s, err := b.create("overlay", ld, conf)
		var pre preloadFn = func(bl []Blob) error { return storeAll(lower, bl) }
		if e.NestedPreload {
			if !lc.Receive && lowerPre != nil {
				pre = lowerPre // a read-only lower layer (union) is filled by its own preload
			}
			pre = joinPre(pre, upperPre)
		}
		var re reopenFn
		if err == nil {
			holder := &s
			b.closers = append(b.closers, func() { closeSto(*holder) })
			if e.DeepReopen && onDisk(sp.str("deleted", "memory")) {
				re = func() (blobserver.Storage, error) {
					closeSto(*holder)
					if err := reKids(ld, []kidRe{{"/lower/", lowerRe}, {"/upper/", upperRe}}); err != nil {
						return nil, err
					}
					ns, err := b.create("overlay", ld, conf)
					if err == nil {
						*holder = ns
						// the preload closure writes into the lower layer of the first incarnation only;
						// lower is never re-created when it is a memory store, which is what C01 uses
					}
					return ns, err
				}
			}
		}
		// receives go to the upper layer only: a read-only upper layer (union) makes the overlay read-only
		return s, Caps{Receive: uc.Receive, Remove: uc.Remove, RemoveMixed: uc.RemoveMixed}, re, pre, err

	case "namespace":
		ld := NewLoader()
		kids := sp.Kids
		if len(kids) == 0 {
			kids = []*Spec{{Kind: "memory"}}
		}
		master, _, _, _, err := b.build(e, kids[0])
		if err != nil {
			return nil, full, nil, nil, err
		}
		ld.Set("/master/", master)
		kvc, kv, err := e.KVConf(sp.str("inventory", "memory"), "ns-inventory")
		if err != nil {
			return nil, full, nil, nil, err
		}
		if kv != nil {
			b.KVs = append(b.KVs, kv)
		}
		s, err := b.create("namespace", ld, jsonconfig.Obj{"storage": "/master/", "inventory": map[string]any(kvc)})
		if err != nil {
			return nil, full, nil, nil, err
		}
		if sp.str("sibling", "") == "yes" {
			// a second namespace over the same master, pre-filled with other blobs: must stay invisible
			kvc2, _, err := e.KVConf("memory", "ns-inventory2")
			if err != nil {
				return nil, full, nil, nil, err
			}
			sib, err := b.create("namespace", ld, jsonconfig.Obj{"storage": "/master/", "inventory": map[string]any(kvc2)})
			if err != nil {
				return nil, full, nil, nil, err
			}
			if err := storeAll(sib, SiblingBlobs()); err != nil {
				return nil, full, nil, nil, err
			}
			b.Siblings = append(b.Siblings, sib)
		}
		return s, Caps{Receive: true, Remove: true}, nil, nil, nil

	case "proxycache":
		ld := NewLoader()
		kids := sp.Kids
		if len(kids) == 0 {
			kids = []*Spec{{Kind: "memory"}}
		}
		origin, oc, originRe, originPre, err := b.build(e, kids[0])
		if err != nil {
			return nil, full, nil, nil, err
		}
		ld.Set("/origin/", origin)
		cache := memory.NewCache(int64(sp.num("cacheBytes", 1<<20)))
		b.mems = append(b.mems, cache)
		ld.Set("/cache/", cache)
		pcConf := jsonconfig.Obj{"origin": "/origin/", "cache": "/cache/"}
		s, err := b.create("proxycache", ld, pcConf)
		if !e.NestedPreload {
			originPre = nil
		}
		var re reopenFn
		if e.DeepReopen {
			re = func() (blobserver.Storage, error) {
				if err := reKids(ld, []kidRe{{"/origin/", originRe}}); err != nil {
					return nil, err
				}
				return b.create("proxycache", ld, pcConf)
			}
		}
		// a read-only origin (union) refuses every receive: so does the proxy
		return s, Caps{Receive: oc.Receive, Remove: oc.Remove, RemoveMixed: oc.RemoveMixed}, re, originPre, err

	case "union":
		ld := NewLoader()
		var prefixes []any
		var subs []blobserver.Storage
		var kidsRe []kidRe
		var subPre []preloadFn // how subset i is filled: directly, or (read-only subset) by its own preload
		for i, k := range sp.Kids {
			ks, kc, kre, kp, err := b.build(e, k)
			if err != nil {
				return nil, full, nil, nil, err
			}
			kidsRe = append(kidsRe, kidRe{fmt.Sprintf("/u%d/", i), kre})
			p := fmt.Sprintf("/u%d/", i)
			ld.Set(p, ks)
			prefixes = append(prefixes, p)
			subs = append(subs, ks)
			fill := preloadFn(func(bl []Blob) error { return storeAll(ks, bl) })
			if e.NestedPreload && kp != nil {
				if !kc.Receive {
					fill = kp
				} else {
					// a writable subset with read-only parts of its own: fill both, alternating
					direct, turn := fill, 0
					fill = func(bl []Blob) error {
						for _, x := range bl {
							turn++
							f := direct
							if turn%2 == 0 {
								f = kp
							}
							if err := f([]Blob{x}); err != nil {
								return err
							}
						}
						return nil
					}
				}
			}
			subPre = append(subPre, fill)
		}
		uConf := jsonconfig.Obj{"subsets": prefixes}
		s, err := b.create("union", ld, uConf)
		var re reopenFn
		if e.DeepReopen {
			re = func() (blobserver.Storage, error) {
				if err := reKids(ld, kidsRe); err != nil {
					return nil, err
				}
				return b.create("union", ld, uConf)
			}
		}
		pre := func(bl []Blob) error {
			// overlapping distribution: blob i goes to subset i%n and, every third, also to the next
			for i, x := range bl {
				if err := subPre[i%len(subs)]([]Blob{x}); err != nil {
					return err
				}
				if i%3 == 0 {
					if err := subPre[(i+1)%len(subs)]([]Blob{x}); err != nil {
						return err
					}
				}
			}
			return nil
		}
		return s, Caps{}, re, pre, err
	}
	return nil, full, nil, nil, fmt.Errorf("unknown backend kind %q", sp.Kind)
}

// WriteAgeKey writes a fresh age identity to a 0600 file and returns its path.
func WriteAgeKey(e *Env) (string, error) {
	id, err := age.GenerateX25519Identity()
	if err != nil {
		return "", err
	}
	d, err := e.subdir("agekey")
	if err != nil {
		return "", err
	}
	p := filepath.Join(d, "identity.txt")
	return p, os.WriteFile(p, []byte(id.String()+"\n"), 0o600)
}

// Blob is a (ref, bytes) pair.
type Blob struct {
	Ref  blob.Ref
	Data []byte
}

func (b Blob) String() string { return fmt.Sprintf("%s(%dB)", b.Ref, len(b.Data)) }

// SiblingBlobs are the blobs stored in the sibling namespace.
func SiblingBlobs() []Blob {
	var out []Blob
	for i := 0; i < 3; i++ {
		d := []byte(fmt.Sprintf("sibling-namespace-blob-%d", i))
		out = append(out, Blob{Ref: blob.RefFromBytes(d), Data: d})
	}
	return out
}
