package sto

import (
	"bytes"
	"context"
	"errors"
	"io"

	"perkeep.org/pkg/blob"
	"perkeep.org/pkg/blobserver"
)

// BrokenKinds are the ways ReceiveBroken makes the SOURCE of a receive fail: the store never gets
// the blob's bytes, so whatever it answers the receive did not happen.
func BrokenKinds() []string { return []string{"corrupt-body", "truncated-upload"} }

// errUpload is what a broken-off upload yields.
var errUpload = errors.New("verif: upload broken off (connection reset)")

type failReader struct{}

func (failReader) Read([]byte) (int, error) { return 0, errUpload }

// ReceiveBroken (C01 round 7) sends b's ref through blobserver.Receive with a source that cannot
// deliver the blob:
//
//	corrupt-body      as many bytes as the blob has, one of them flipped (the 0-byte blob gets one
//	                  byte): the hash check of blobserver.Receive fails the source at its EOF
//	truncated-upload  a proper prefix of the blob (half of it; nothing of a 0- or 1-byte blob), then
//	                  a read error
//
// The reference map does not change: a blob that was absent stays absent (reads afterwards are judged
// by the ordinary oracles), a blob that was present keeps its true bytes.  Judged here: a receive of an
// ABSENT blob whose source failed must not report success (class broken-accepted).  For a present
// blob a store may answer "have it" without reading the source, so nothing is demanded of the result.
// It returns whether the call reported an error.
func (c *Checker) ReceiveBroken(b Blob, kind string) bool {
	var src io.Reader
	switch kind {
	case "corrupt-body":
		d := append([]byte{}, b.Data...)
		if len(d) == 0 {
			d = []byte{'x'}
		} else {
			d[len(d)/2] ^= 0x55
		}
		src = bytes.NewReader(d)
	default:
		src = io.MultiReader(bytes.NewReader(b.Data[:len(b.Data)/2]), failReader{})
	}
	var sb blob.SizedRef
	var err error
	if !c.guarded("receive-broken", func() { sb, err = blobserver.Receive(context.Background(), c.S, b.Ref, src) }) {
		return false
	}
	_ = sb
	c.lastErr = err
	c.Evals++
	if err == nil {
		if _, present := c.Present[b.Ref]; !present && !c.Uncertain[b.Ref] && c.Caps.Receive {
			c.bad("broken-accepted", "receive", "receive of %v with a failing source (%s) reported success", b.Ref, kind)
			c.Uncertain[b.Ref] = true
		}
	}
	return err != nil
}
