package sto

import (
	"bytes"
	"context"
	"errors"
	"fmt"
	"io"
	"math"
	"math/rand"
	"os"
	"sort"
	"time"

	"perkeep.org/pkg/blob"
	"perkeep.org/pkg/blobserver"
)

func storeAll(s blobserver.BlobReceiver, bl []Blob) error {
	for _, b := range bl {
		if _, err := s.ReceiveBlob(context.Background(), b.Ref, bytes.NewReader(b.Data)); err != nil {
			return fmt.Errorf("preload %v: %w", b.Ref, err)
		}
	}
	return nil
}

// StoreAll stores blobs directly (no hub, no hash check) into s.
func StoreAll(s blobserver.BlobReceiver, bl []Blob) error { return storeAll(s, bl) }

// Checker executes operations on a storage and compares every result with the
// reference map (the "BlobMap"/"MaybeMap" oracle of DESIGN 3.1 / A.1).
type Checker struct {
	S        blobserver.Storage
	Label    string // backend label used in signatures
	Caps     Caps
	Universe []Blob // every blob that may ever be used on this store

	Present   map[blob.Ref][]byte // certain-present
	Uncertain map[blob.Ref]bool   // may be present (intact) or absent
	// ForeignOK: refs outside Universe that the store may legitimately enumerate (none by default).
	Report func(sig, what string)
	Evals  int
	Ops    map[string]int
	Dead   bool // an operation hung: the store is no longer usable
	// Tolerate marks the *next* operation as one that may fail (a fault is being injected below it).
	Tolerate bool
	// OpTimeout is the per-operation watchdog.
	OpTimeout time.Duration
	// StrictRange (opt-in, C01) judges the ranged-fetch edges that blob.SubFetcher documents:
	// the only documented refusals are a negative argument, a missing blob and an offset that
	// "goes over the size of the blob"; offset == size and length == 0 are therefore valid
	// (empty) ranges of a present blob and must succeed with what the reference map's slice
	// [off:off+len], clipped to the blob, holds.  Without the flag an error on those two
	// edges is tolerated (the behaviour every other check was written against).
	StrictRange bool
	// Cats counts, per category, the ranged fetches of certainly-present blobs that were
	// compared with the reference map (see rangeCats).  nil-safe.
	Cats    map[string]int
	lastErr error
	ctx     context.Context
}

// NewChecker returns a checker over an initially empty model.
func NewChecker(s blobserver.Storage, label string, caps Caps, universe []Blob, report func(sig, what string)) *Checker {
	return &Checker{S: s, Label: label, Caps: caps, Universe: universe,
		Present: map[blob.Ref][]byte{}, Uncertain: map[blob.Ref]bool{},
		Report: report, Ops: map[string]int{}, Cats: map[string]int{}, OpTimeout: 60 * time.Second, ctx: context.Background()}
}

func (c *Checker) bad(class, op, format string, args ...any) {
	c.Report(fmt.Sprintf("%s/%s.%s", class, c.Label, op), fmt.Sprintf(format, args...))
}

// guarded runs fn under the watchdog.  A firing marks the checker dead.
func (c *Checker) guarded(op string, fn func()) bool {
	if c.Dead {
		return false
	}
	c.Ops[op]++
	done := make(chan any, 1)
	go func() {
		defer func() { done <- recover() }()
		fn()
	}()
	select {
	case p := <-done:
		if p != nil {
			c.bad("panic", op, "panic: %v", p)
			return false
		}
		return true
	case <-time.After(c.OpTimeout):
		c.Dead = true
		c.bad("hang", op, "%s did not return within %v", op, c.OpTimeout)
		return false
	}
}

// LastErr returns the error of the last operation (nil if it succeeded).
func (c *Checker) LastErr() error { return c.lastErr }

func (c *Checker) takeTolerate() bool {
	t := c.Tolerate
	c.Tolerate = false
	return t
}

// Receive stores b through blobserver.Receive (hash-verified entry point).
func (c *Checker) Receive(b Blob) {
	tol := c.takeTolerate()
	var sb blob.SizedRef
	var err error
	if !c.guarded("receive", func() { sb, err = blobserver.Receive(c.ctx, c.S, b.Ref, bytes.NewReader(b.Data)) }) {
		c.Uncertain[b.Ref] = true
		return
	}
	c.lastErr = err
	c.Evals++
	if !c.Caps.Receive {
		if err == nil {
			c.bad("readonly-accepted", "receive", "read-only store accepted %v", b.Ref)
		}
		return
	}
	if err != nil {
		if tol {
			if _, ok := c.Present[b.Ref]; !ok {
				c.Uncertain[b.Ref] = true
			}
			return
		}
		c.bad("op-error", "receive", "receive %v: %v", b, err)
		if _, ok := c.Present[b.Ref]; !ok {
			c.Uncertain[b.Ref] = true
		}
		return
	}
	if sb.Ref != b.Ref || int(sb.Size) != len(b.Data) {
		c.bad("content", "receive", "receive %v returned %v", b, sb)
	}
	c.Present[b.Ref] = b.Data
	delete(c.Uncertain, b.Ref)
}

// observe resolves an uncertain ref from a quiescent observation.
func (c *Checker) observe(ref blob.Ref, present bool, data []byte) {
	if c.Uncertain[ref] {
		delete(c.Uncertain, ref)
		if present {
			c.Present[ref] = data
		} else {
			delete(c.Present, ref)
		}
	}
}

func (c *Checker) dataOf(ref blob.Ref) []byte {
	for _, b := range c.Universe {
		if b.Ref == ref {
			return b.Data
		}
	}
	return nil
}

// Fetch fetches b and compares with the model.
func (c *Checker) Fetch(b Blob) {
	tol := c.takeTolerate()
	var data []byte
	var size uint32
	var err error
	if !c.guarded("fetch", func() {
		var rc io.ReadCloser
		rc, size, err = c.S.Fetch(c.ctx, b.Ref)
		if err == nil {
			data, err = io.ReadAll(rc)
			rc.Close()
		}
	}) {
		return
	}
	c.lastErr = err
	c.Evals++
	want, present := c.Present[b.Ref]
	unc := c.Uncertain[b.Ref]
	switch {
	case err == nil:
		if !bytes.Equal(data, b.Data) || int(size) != len(b.Data) {
			c.bad("content", "fetch", "fetch %v returned %d bytes (size=%d) differing from the stored content", b, len(data), size)
			return
		}
		if !present && !unc {
			c.bad("absent-served", "fetch", "fetch %v succeeded but the blob is absent in the reference map", b.Ref)
			return
		}
		if !tol {
			c.observe(b.Ref, true, b.Data)
		}
	case errors.Is(err, os.ErrNotExist):
		if present && !unc {
			if tol {
				return
			}
			c.bad("present-missing", "fetch", "fetch %v: not found, but the blob is present in the reference map", b.Ref)
			return
		}
		if !tol {
			c.observe(b.Ref, false, nil)
		}
	default:
		if tol {
			return
		}
		_ = want
		c.bad("op-error", "fetch", "fetch %v: %v", b.Ref, err)
	}
}

// SubFetch reads a range and compares with the model.
func (c *Checker) SubFetch(b Blob, off, length int64) {
	sf, ok := c.S.(blob.SubFetcher)
	if !ok {
		return
	}
	tol := c.takeTolerate()
	var data []byte
	var err error
	if !c.guarded("subfetch", func() {
		var rc io.ReadCloser
		rc, err = sf.SubFetch(c.ctx, b.Ref, off, length)
		if err == nil {
			data, err = io.ReadAll(rc)
			rc.Close()
		}
	}) {
		return
	}
	c.lastErr = err
	c.Evals++
	if errors.Is(err, blob.ErrUnimplemented) {
		return
	}
	_, present := c.Present[b.Ref]
	unc := c.Uncertain[b.Ref]
	if off < 0 || length < 0 {
		if err == nil {
			c.bad("range", "subfetch", "subfetch %v off=%d len=%d succeeded with negative argument", b.Ref, off, length)
		}
		return
	}
	if !present && !unc {
		if err == nil {
			c.bad("absent-served", "subfetch", "subfetch %v succeeded on an absent blob", b.Ref)
		}
		return
	}
	size := int64(len(b.Data))
	// huge: off+length does not fit an int64; the reference slice is simply "the rest of the blob"
	huge := length > math.MaxInt64-off
	if !tol && !unc {
		c.rangeCats(size, off, length, huge)
	}
	if err != nil {
		if tol || unc {
			return
		}
		if off > size {
			return // documented: ErrOutOfRangeOffsetSubFetch
		}
		if errors.Is(err, os.ErrNotExist) {
			c.bad("present-missing", "subfetch", "subfetch %v: not found but present", b.Ref)
			return
		}
		if huge {
			c.bad("range-overflow", "subfetch", "subfetch %v off=%d len=%d (off+len overflows int64; valid range = rest of the blob): %v", b, off, length, err)
			return
		}
		if off == size || length == 0 {
			if c.StrictRange {
				// blob.SubFetcher: the error is ErrOutOfRangeOffsetSubFetch only "if offset goes over the
				// size of the blob"; off <= size with a non-negative length is a valid (possibly empty) range
				c.bad("range-refused", "subfetch", "subfetch %v off=%d len=%d refused (%v) although 0 <= off <= size and len >= 0: the reference map returns the %d-byte slice", b, off, length, err, clipEnd(size, off, length)-off)
			}
			return // edge not judged without StrictRange
		}
		c.bad("op-error", "subfetch", "subfetch %v off=%d len=%d: %v", b, off, length, err)
		return
	}
	if off > size {
		if len(data) != 0 {
			c.bad("range", "subfetch", "subfetch %v off=%d beyond size returned %d bytes", b, off, len(data))
		}
		return
	}
	end := clipEnd(size, off, length)
	if !bytes.Equal(data, b.Data[off:end]) {
		class := "content"
		if huge {
			class = "range-overflow"
		}
		c.bad(class, "subfetch", "subfetch %v off=%d len=%d returned %d bytes, want %d (content differs)", b, off, length, len(data), end-off)
	}
}

// clipEnd is the end of the reference slice [off:off+length] clipped to size (0 <= off <= size, length >= 0).
func clipEnd(size, off, length int64) int64 {
	if length > size-off {
		return size
	}
	return off + length
}

// rangeCats records which ranged-fetch categories were exercised on a certainly-present blob.
func (c *Checker) rangeCats(size, off, length int64, huge bool) {
	if c.Cats == nil {
		return
	}
	switch {
	case off > size:
		c.Cats["off>size"]++
	case off == size:
		c.Cats["off==size"]++
	case length > size-off:
		c.Cats["clipped"]++
	default:
		c.Cats["inside"]++
	}
	if length == 0 && off <= size {
		c.Cats["len==0"]++
	}
	if size == 0 && off == 0 {
		c.Cats["empty-blob"]++
	}
	if huge {
		c.Cats["huge-length"]++
	}
}

// SubFetchEdges runs the directed boundary family of ranged fetches on b: every combination of
// offset in {0, size/2, size-1, size, size+1} with length in {0, 1, size, size+5, MaxInt64-off,
// MaxInt64}.  No-op when the store has no SubFetch.
func (c *Checker) SubFetchEdges(b Blob) {
	if _, ok := c.S.(blob.SubFetcher); !ok {
		return
	}
	n := int64(len(b.Data))
	offs := []int64{0, n, n + 1}
	if n > 0 {
		offs = append(offs, n-1)
	}
	if n > 2 {
		offs = append(offs, n/2)
	}
	for _, off := range offs {
		for _, ln := range []int64{0, 1, n, n + 5, math.MaxInt64 - off, math.MaxInt64} {
			if c.Dead {
				return
			}
			c.SubFetch(b, off, ln)
		}
	}
}

// Stat stats a batch and compares with the model.
func (c *Checker) Stat(bs []Blob) {
	tol := c.takeTolerate()
	refs := make([]blob.Ref, len(bs))
	for i, b := range bs {
		refs[i] = b.Ref
	}
	got := map[blob.Ref]uint32{}
	dups := 0
	var err error
	if !c.guarded("stat", func() {
		err = c.S.StatBlobs(c.ctx, refs, func(sb blob.SizedRef) error {
			if _, dup := got[sb.Ref]; dup {
				dups++
			}
			got[sb.Ref] = sb.Size
			return nil
		})
	}) {
		return
	}
	c.lastErr = err
	c.Evals++
	if err != nil {
		if !tol {
			c.bad("op-error", "stat", "stat of %d refs: %v", len(refs), err)
		}
		// whatever was reported before the error must still be right
	}
	if dups > 0 {
		c.bad("stat-dup", "stat", "stat reported %d duplicate entries", dups)
	}
	asked := map[blob.Ref]Blob{}
	for _, b := range bs {
		asked[b.Ref] = b
	}
	for ref, size := range got {
		b, ok := asked[ref]
		if !ok {
			c.bad("stat-unasked", "stat", "stat reported %v which was not asked for", ref)
			continue
		}
		if int(size) != len(b.Data) {
			c.bad("content", "stat", "stat %v size=%d want %d", ref, size, len(b.Data))
		}
		if _, present := c.Present[ref]; !present && !c.Uncertain[ref] {
			c.bad("absent-served", "stat", "stat reported absent blob %v", ref)
		}
	}
	if err == nil {
		for _, b := range bs {
			_, reported := got[b.Ref]
			if _, present := c.Present[b.Ref]; present && !c.Uncertain[b.Ref] && !reported && !tol {
				c.bad("present-missing", "stat", "stat of %d refs did not report present blob %v", len(bs), b.Ref)
			}
			if !tol {
				c.observe(b.Ref, reported, b.Data)
			}
		}
	}
}

// Enumerate runs one EnumerateBlobs call and checks it against the model.
// It returns the refs listed (for chaining).
func (c *Checker) Enumerate(after string, limit int) []blob.SizedRef {
	tol := c.takeTolerate()
	var got []blob.SizedRef
	var err error
	if !c.guarded("enumerate", func() {
		ch := make(chan blob.SizedRef)
		errc := make(chan error, 1)
		go func() { errc <- c.S.EnumerateBlobs(c.ctx, ch, after, limit) }()
		for sb := range ch {
			got = append(got, sb)
		}
		err = <-errc
	}) {
		return nil
	}
	c.lastErr = err
	c.Evals++
	if err != nil {
		if !tol {
			c.bad("op-error", "enumerate", "enumerate after=%q limit=%d: %v", after, limit, err)
		}
		return got
	}
	if len(got) > limit {
		c.bad("enum-limit", "enumerate", "enumerate after=%q limit=%d returned %d blobs", after, limit, len(got))
	}
	prev := after
	seen := map[blob.Ref]bool{}
	for i, sb := range got {
		s := sb.Ref.String()
		if seen[sb.Ref] {
			c.bad("enum-dup", "enumerate", "enumerate after=%q limit=%d lists %v twice", after, limit, sb.Ref)
		}
		seen[sb.Ref] = true
		if !(s > prev) {
			if i == 0 {
				c.bad("enum-cursor", "enumerate", "enumerate after=%q returned %v which is not strictly after the cursor", after, s)
			} else {
				c.bad("enum-order", "enumerate", "enumerate after=%q: %v follows %v (not ascending by text)", after, s, prev)
			}
		}
		prev = s
		data, present := c.Present[sb.Ref]
		if !present && !c.Uncertain[sb.Ref] {
			c.bad("absent-served", "enumerate", "enumerate after=%q lists %v which is absent in the reference map", after, sb.Ref)
			continue
		}
		if !present {
			data = c.dataOf(sb.Ref)
		}
		if int(sb.Size) != len(data) {
			c.bad("content", "enumerate", "enumerate lists %v with size %d, want %d", sb.Ref, sb.Size, len(data))
		}
	}
	if tol {
		return got
	}
	// completeness: the expected page is the first `limit` certain-present refs > after;
	// uncertain refs may appear anywhere.
	var want []string
	for ref := range c.Present {
		if c.Uncertain[ref] {
			continue
		}
		if s := ref.String(); s > after {
			want = append(want, s)
		}
	}
	sort.Strings(want)
	// Every certain-present ref that sorts before the last returned ref (or anywhere, when the page
	// is not full) must be in the page.
	bound := "\xff"
	if len(got) >= limit && len(got) > 0 {
		bound = got[len(got)-1].Ref.String()
	}
	for _, w := range want {
		if w > bound {
			break
		}
		r := blob.MustParse(w)
		if !seen[r] {
			c.bad("enum-missing", "enumerate", "enumerate after=%q limit=%d skipped present blob %s (page had %d entries)", after, limit, w, len(got))
			break
		}
	}
	return got
}

// Remove removes a batch and updates the model.
func (c *Checker) Remove(bs []Blob) {
	tol := c.takeTolerate()
	refs := make([]blob.Ref, len(bs))
	for i, b := range bs {
		refs[i] = b.Ref
	}
	var err error
	if !c.guarded("remove", func() { err = c.S.RemoveBlobs(c.ctx, refs) }) {
		for _, r := range refs {
			c.Uncertain[r] = true
		}
		return
	}
	c.lastErr = err
	c.Evals++
	if c.Caps.RemoveMixed {
		for _, r := range refs {
			if _, p := c.Present[r]; p {
				c.Uncertain[r] = true
			}
		}
		return
	}
	if !c.Caps.Remove {
		if err == nil {
			c.bad("unsupported-remove-acked", "remove", "store without remove support acknowledged a remove of %d refs", len(refs))
			for _, r := range refs {
				c.Uncertain[r] = true
			}
		}
		return // refusal: no state change expected
	}
	if err != nil {
		if !tol {
			c.bad("op-error", "remove", "remove of %d refs: %v", len(refs), err)
		}
		for _, r := range refs {
			if _, p := c.Present[r]; p {
				c.Uncertain[r] = true
			}
		}
		return
	}
	for _, r := range refs {
		if tol {
			if _, p := c.Present[r]; p {
				c.Uncertain[r] = true // acked remove under fault: best effort (A.1)
			}
			continue
		}
		delete(c.Present, r)
		delete(c.Uncertain, r)
	}
}

// Cursors returns the hostile cursor family for the current universe.
func (c *Checker) Cursors(rng *rand.Rand) []string {
	cur := []string{"", "a", "sha", "sha1", "sha1-", "sha224", "sha224-", "sha224-0", "sha224-f", "sha225", "sha256-", "sha256-\xff", "t", "\xff", "SHA224-", "sha224-zz", "sha1-ffffffffffffffffffffffffffffffffffffffff0", "s", "sha2", "sha224-8"}
	if len(c.Universe) > 0 {
		for i := 0; i < 4; i++ {
			s := c.Universe[rng.Intn(len(c.Universe))].Ref.String()
			b := []byte(s)
			b[len(b)-1]++
			b2 := []byte(s)
			b2[len(b2)-1]--
			cur = append(cur, s, s[:len(s)-1], s+"0", string(b), string(b2), s[:len(s)/2])
		}
	}
	return cur
}

// Audit compares the whole store with the model: fetch of every universe blob, stat in
// batches, enumeration from every cursor with several page sizes, chained paging.
func (c *Checker) Audit(rng *rand.Rand, full bool) {
	if c.Dead {
		return
	}
	for _, b := range c.Universe {
		c.Fetch(b)
	}
	// stats: singles, sevens, everything (+ duplicates-free shuffles)
	perm := rng.Perm(len(c.Universe))
	all := make([]Blob, len(perm))
	for i, p := range perm {
		all[i] = c.Universe[p]
	}
	c.Stat(all)
	for i := 0; i < len(all); i += 7 {
		j := i + 7
		if j > len(all) {
			j = len(all)
		}
		c.Stat(all[i:j])
	}
	if full {
		for _, b := range all {
			c.Stat([]Blob{b})
		}
	}
	n := len(c.Present)
	limits := []int{1, 2, 3, n - 1, n, n + 1, 1000}
	cursors := c.Cursors(rng)
	if !full {
		limits = []int{1, 3, n, 1000}
		cursors = cursors[:12]
	}
	for _, lim := range limits {
		if lim < 1 {
			continue
		}
		// chained paging visits everything exactly once
		after := ""
		visited := map[blob.Ref]int{}
		for page := 0; page <= n+len(c.Uncertain)+3; page++ {
			got := c.Enumerate(after, lim)
			if c.Dead || c.lastErr != nil {
				break
			}
			for _, sb := range got {
				visited[sb.Ref]++
			}
			if len(got) < lim || len(got) == 0 {
				break
			}
			after = got[len(got)-1].Ref.String()
		}
		if !c.Dead && c.lastErr == nil {
			for ref := range c.Present {
				if visited[ref] != 1 && !c.Uncertain[ref] {
					c.bad("enum-paging", "enumerate", "paging with limit %d visited present blob %v %d times", lim, ref, visited[ref])
					break
				}
			}
		}
	}
	for _, cur := range cursors {
		c.Enumerate(cur, 1000)
		if full {
			c.Enumerate(cur, 2)
		}
	}
	if _, ok := c.S.(blob.SubFetcher); ok {
		for _, b := range c.Universe {
			n := int64(len(b.Data))
			c.SubFetch(b, 0, n)
			if n > 2 {
				c.SubFetch(b, 1, n-2)
				c.SubFetch(b, n/2, n)
			}
			if full {
				c.SubFetch(b, n, 1)
				c.SubFetch(b, n+1, 1)
				c.SubFetch(b, 0, 0)
				c.SubFetch(b, -1, 1)
				c.SubFetch(b, 0, -1)
				c.SubFetch(b, 0, 1)
				if n > 0 {
					c.SubFetch(b, n-1, 5)
				}
			}
		}
		if c.StrictRange {
			// boundary family: on every blob in a full audit, else on the empty blob(s) and two others
			k1, k2 := -1, -1
			if !full && len(c.Universe) > 0 {
				k1, k2 = rng.Intn(len(c.Universe)), rng.Intn(len(c.Universe))
			}
			for i, b := range c.Universe {
				if full || len(b.Data) == 0 || i == k1 || i == k2 {
					c.SubFetchEdges(b)
				}
			}
		}
	}
}
